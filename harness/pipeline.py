"""Binding to spec/Pipeline.tla and driver of the real CLI (python -m tel2puml) for C14."""
from __future__ import annotations

import json
import os
import random
import subprocess

import learner
import tlc

T0 = 1_700_000_000_000_000_000
MIN = 60_000_000_000
FIELD_MAPPING = {
    "job_name": {"key_paths": ["resource_spans.[].resource.attributes.[].key"], "key_value": ["service.name"],
                 "value_paths": ["value.Value.StringValue"], "value_type": "string"},
    "job_id": {"key_paths": ["resource_spans.[].scope_spans.[].spans.[].trace_id"], "value_type": "string"},
    "event_type": {"key_paths": ["resource_spans.[].scope_spans.[].spans.[].name"], "value_type": "string"},
    "event_id": {"key_paths": ["resource_spans.[].scope_spans.[].spans.[].span_id"], "value_type": "string"},
    "start_timestamp": {"key_paths": ["resource_spans.[].scope_spans.[].spans.[].start_time_unix_nano"], "value_type": "string"},
    "end_timestamp": {"key_paths": ["resource_spans.[].scope_spans.[].spans.[].end_time_unix_nano"], "value_type": "string"},
    "application_name": {"key_paths": ["resource_spans.[].scope_spans.[].scope.name"], "value_type": "string"},
    "parent_event_id": {"key_paths": ["resource_spans.[].scope_spans.[].spans.[].parent_span_id"], "value_type": "string"},
}
CUSTOM_MAP = {"jobId": "JID", "eventId": "EID", "timestamp": "when", "previousEventIds": "after", "applicationName": "appl",
              "jobName": "workflow", "eventType": "kind"}
DEFAULT_MAP = {k: k for k in CUSTOM_MAP}
# custom mappings: fresh names; names that are the default names of *other* fields; a swap; a partial mapping
CUSTOM_MAPS = [
    CUSTOM_MAP,
    dict(DEFAULT_MAP, eventType="jobName", jobName="workflowName"),
    dict(DEFAULT_MAP, jobId="eventId", eventId="jobId"),
    dict(DEFAULT_MAP, timestamp="applicationName", applicationName="app", previousEventIds="prev"),
    dict(DEFAULT_MAP, eventType="kind"),
]


def dataset(rnd, nwf=(2, 3)):
    """workflows whose traces are small call trees: a fixed backbone per workflow with optional / alternative children,
    so that the learned diagrams have XOR branches (and AND forks in asynchronous mode)"""
    docs = []
    tid = [0]
    for w in range(rnd.randint(*nwf)):
        wf = "wf %d" % w if w % 2 else "wf%d" % w
        kids = rnd.sample(["A", "B", "C", "D", "E"], rnd.randint(2, 4))
        for _v in range(rnd.randint(2, 4)):
            tid[0] += 1
            trace = "trace%03d" % tid[0]
            spans = [{"trace_id": trace, "span_id": "%s-root" % trace, "parent_span_id": None, "name": "R%d" % w,
                      "start_time_unix_nano": T0, "end_time_unix_nano": T0 + 100 * MIN}]
            chosen = [k for k in kids if rnd.random() < 0.7] or [kids[0]]
            if rnd.random() < 0.15:
                chosen = []          # a trace that consists of its root span only (e.g. a request answered from a cache)
            t = 1
            for k in chosen:
                dur = rnd.randint(1, 6)
                start = t if rnd.random() < 0.6 else max(1, t - rnd.randint(1, 3))     # sometimes overlapping
                sid = "%s-%s" % (trace, k)
                spans.append({"trace_id": trace, "span_id": sid, "parent_span_id": "%s-root" % trace, "name": k,
                              "start_time_unix_nano": T0 + start * MIN, "end_time_unix_nano": T0 + (start + dur) * MIN})
                if rnd.random() < 0.4:
                    spans.append({"trace_id": trace, "span_id": sid + "-x", "parent_span_id": sid, "name": k + "x",
                                  "start_time_unix_nano": T0 + start * MIN, "end_time_unix_nano": T0 + (start + 1) * MIN})
                t = start + dur + 1
            rnd.shuffle(spans)
            docs.append({"resource_spans": [{"resource": {"attributes": [
                {"key": "service.name", "value": {"Value": {"StringValue": wf}}}]},
                "scope_spans": [{"scope": {"name": "app%d" % w}, "spans": spans}]}]})
    return docs


def write_case(d, docs, async_flag, custom):
    """custom: None (no mapping file) or a mapping dict"""
    import yaml
    os.makedirs(os.path.join(d, "data"))
    for i, doc in enumerate(docs):
        with open(os.path.join(d, "data", "f%03d.json" % i), "w") as fh:
            json.dump(doc, fh)
    for route in ("A", "B", "C"):
        cfg = {"ingest_data": {"data_source": "json", "data_holder": "sql"},
               "data_holders": {"sql": {"db_uri": "sqlite:///" + os.path.join(d, "db%s.sqlite" % route), "batch_size": 7,
                                        "time_buffer": 0}},
               "data_sources": {"json": {"dirpath": os.path.join(d, "data"), "filepath": None, "json_per_line": False,
                                         "field_mapping": FIELD_MAPPING}},
               "sequencer": {"async_flag": bool(async_flag)}}
        with open(os.path.join(d, "config%s.yaml" % route), "w") as fh:
            yaml.safe_dump(cfg, fh)
    if custom:
        with open(os.path.join(d, "mapping.yaml"), "w") as fh:
            yaml.safe_dump(custom, fh)


def cli(args, cwd):
    """run the command line (debug flag on, so that a failure carries its traceback); returns rc and the exception line"""
    k = next(i for i, a in enumerate(args) if a in ("otel2puml", "otel2pv", "pv2puml"))
    argv = args[:k + 1] + ["-d"] + args[k + 1:]
    p = subprocess.run([learner.PY, "-m", "tel2puml"] + argv, cwd=cwd, env=learner.child_env(0), capture_output=True,
                       text=True, timeout=600)
    out = p.stdout + p.stderr
    exc = ""
    if p.returncode != 0:
        m = out.rfind("Traceback (most recent call last)")
        tb = out[m:] if m >= 0 else out[-800:]
        lines = [ln for ln in tb.splitlines() if ln.strip() and not ln.startswith(" ")]
        exc = next((ln for ln in lines[1:] if ":" in ln or ln.endswith("Error")), lines[-1] if lines else "")[:300]
    return {"rc": p.returncode, "exception": exc, "tail": out[-600:] if p.returncode else ""}


def run_routes(d, custom):
    """route A: otel2puml; route B: otel2pv -se, then pv2puml per workflow folder"""
    mc = ["-mc", os.path.join(d, "mapping.yaml")] if custom else []
    res = {"A": cli(["-o", os.path.join(d, "outA"), "otel2puml", "-c", os.path.join(d, "configA.yaml")], d)}
    res["B1"] = cli(["-o", os.path.join(d, "pv"), "otel2pv", "-c", os.path.join(d, "configB.yaml"), "-se"] + mc, d)
    res["B2"] = []
    pvdir = os.path.join(d, "pv")
    for wf in sorted(os.listdir(pvdir)) if os.path.isdir(pvdir) else []:
        if os.path.isdir(os.path.join(pvdir, wf)):
            res["B2"].append((wf, cli(["-o", os.path.join(d, "outB"), "pv2puml", "-fp", os.path.join(pvdir, wf), "-jn", wf]
                                      + mc, d)))
    return res


def read_pumls(d):
    out = {}
    if os.path.isdir(d):
        for f in sorted(os.listdir(d)):
            if f.endswith(".puml"):
                with open(os.path.join(d, f)) as fh:
                    out[f[:-5]] = fh.read()
    return out


def read_files(pvdir):
    """raw saved files: list of (workflow folder, list of raw events)"""
    out = []
    if os.path.isdir(pvdir):
        for wf in sorted(os.listdir(pvdir)):
            wd = os.path.join(pvdir, wf)
            if os.path.isdir(wd):
                for f in sorted(os.listdir(wd)):
                    with open(os.path.join(wd, f)) as fh:
                        out.append((wf, json.load(fh)))
    return out


# ------------------------------------------------------------------ TLA+ rendering
def _val(v):
    if isinstance(v, list):
        return "{" + ", ".join(tlc.tla_str(str(x)) for x in v) + "}"
    return tlc.tla_str(str(v))


def event_tla(e):
    keys = ["jobId", "eventId", "timestamp", "applicationName", "jobName", "eventType"]
    return "[" + ", ".join("%s |-> %s" % (k, _val(e.get(k, "<missing>"))) for k in keys) + \
        ", previousEventIds |-> %s]" % _val(list(e.get("previousEventIds", []) if not isinstance(e.get("previousEventIds"), str)
                                                 else [e["previousEventIds"]]))


def raw_tla(raw):
    return "(" + " @@ ".join("%s :> %s" % (tlc.tla_str(k), _val(v)) for k, v in raw.items()) + ")" if raw else "<<>>"


def _complete(raw, mp):
    """a key the mapping expects but the file lacks is made explicit, so that TLC compares instead of failing"""
    out = dict(raw)
    for f, k in mp.items():
        if k not in out:
            out[k] = ["<missing>"] if f == "previousEventIds" else "<missing>"
    return out


def run_tla(mp, streamed, files, loaded):
    files = [(wf, [_complete(r, mp) for r in f]) for wf, f in files]
    return "[map |-> (%s),\n  streamed |-> {%s},\n  files |-> {%s},\n  loaded |-> {%s}]" % (
        " @@ ".join("%s :> %s" % (tlc.tla_str(k), tlc.tla_str(v)) for k, v in mp.items()),
        ", ".join("{" + ", ".join(event_tla(e) for e in j["events"]) + "}" for j in streamed),
        ", ".join("{" + ", ".join(raw_tla(r) for r in f) + "}" for _wf, f in files),
        ", ".join("{" + ", ".join(event_tla(e) for e in j["events"]) + "}" for j in loaded))


def validate(runs, stats=None):
    """runs: list of (map, streamed, files, loaded).  Returns the list of BAD tags per run (decided by TLC)."""
    data = {"PipeData": tlc.data_module("PipeData", {"Runs": "<<\n " + ",\n ".join(run_tla(*r) for r in runs) + "\n>>"},
                                        extends="Naturals, Sequences, TLC")}
    r = tlc.run_tlc("Pipeline", "INIT Init\nNEXT Next\nINVARIANT Report\nINVARIANT RoundTrip\nINVARIANT ObservedRoundTrip\n",
                    data, modules=["Pipeline"], workers=1, allow_violation=False)
    if stats is not None:
        stats["states"] = stats.get("states", 0) + r.distinct
        stats["generated"] = stats.get("generated", 0) + r.generated
    out = [[] for _ in runs]
    ended = {v[1] for v in tlc.extract(r.out, "END")}
    if len(ended) != len(runs):
        raise tlc.TLCError("Pipeline did not finish every run")
    for v in tlc.extract(r.out, "BAD"):
        if v[2] not in out[v[1] - 1]:
            out[v[1] - 1].append(v[2])
    return out
