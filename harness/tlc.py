"""TLC runner, TLA+ literal writers and TLC output parsers.

Every TLC run happens in a private directory under /verif/work that receives
copies of the spec modules plus generated data modules; the directory is
removed afterwards unless keep=True.  A run that does not finish with TLC's
own completion banner is a machinery failure (TLCError), never a verdict.
"""
from __future__ import annotations

import os
import re
import shutil
import subprocess
import tempfile
import time
from concurrent.futures import ThreadPoolExecutor
from dataclasses import dataclass, field

VERIF = os.path.dirname(os.path.dirname(os.path.abspath(__file__)))
SPEC = os.path.join(VERIF, "spec")
WORK = os.path.join(VERIF, "work")
JAR = "/opt/veriftools/tla/tla2tools.jar:/opt/veriftools/tla/CommunityModules-deps.jar"


class TLCError(RuntimeError):
    """TLC did not complete / output could not be interpreted."""


@dataclass
class TLCResult:
    out: str
    wall: float
    generated: int = 0
    distinct: int = 0
    depth: int = 0
    completed: bool = False
    violated: list = field(default_factory=list)   # names of violated invariants/properties
    coverage: dict = field(default_factory=dict)   # action name -> (total, distinct)
    workdir: str = ""


_STATS = re.compile(r"(\d+) states generated, (\d+) distinct states found")
_DEPTH = re.compile(r"depth of the complete state graph search is (\d+)")
_VIOL = re.compile(r"Invariant (\w+) is violated|Action property (\w+) is violated|"
                   r"Temporal properties were violated|property (\w+) is violated")
_COV = re.compile(r"^<(\w+) line \d+, col \d+ to line \d+, col \d+ of module (\w+)>: (\d+):(\d+)", re.M)


_COVLINE = re.compile(r"line (\d+), col \d+ to line \d+, col \d+ of module (\w+): (\d+)")
_DEF = re.compile(r"^(\w+)(\([^)]*\))?\s*==")


def action_lines(module: str, names: list[str]) -> dict[str, int]:
    """for each named action of spec/<module>.tla the line of its last conjunct (the UNCHANGED tail or
    the last non-blank line of the body): that conjunct is evaluated exactly when the action fires."""
    lines = open(os.path.join(SPEC, module + ".tla")).read().splitlines()
    out = {}
    for i, ln in enumerate(lines):
        m = _DEF.match(ln)
        if m and m.group(1) in names:
            j = i + 1
            last = i
            unch = i if "UNCHANGED" in ln else None
            while j < len(lines) and not _DEF.match(lines[j]) and not lines[j].startswith("(*") \
                    and not lines[j].startswith("\\*") and not lines[j].startswith("=="):
                if lines[j].strip():
                    last = j
                    if "UNCHANGED" in lines[j]:
                        unch = j
                j += 1
            out[m.group(1)] = (unch if unch is not None else last) + 1
    return out


def action_counts(out: str, module: str, names: list[str]) -> dict[str, int]:
    """how often each named action fired, read from a -coverage 1 run"""
    where = action_lines(module, names)
    best = {}
    for m in _COVLINE.finditer(out):
        if m.group(2) == module:
            ln, n = int(m.group(1)), int(m.group(3))
            best[ln] = max(best.get(ln, 0), n)
    return {a: best.get(ln, 0) for a, ln in where.items()}


def mkwork(prefix: str) -> str:
    os.makedirs(WORK, exist_ok=True)
    return tempfile.mkdtemp(prefix=prefix + "-", dir=WORK)


def run_tlc(main: str, cfg: str, data: dict[str, str] | None = None, *, modules: list[str] | None = None,
            workers: int | str = 1, timeout: int = 1800, coverage: bool = False, simulate: str | None = None,
            depth: int | None = None, keep: bool = False, heap: str = "3g", dfid: int | None = None,
            deadlock: bool = False, env: dict | None = None, seed: int | None = None,
            allow_violation: bool = True, jvm: str = "fast") -> TLCResult:
    """Run TLC on spec/<main>.tla with configuration text `cfg` and generated modules `data`
    ({module name: text}).  `modules`: extra spec modules to copy (default: every .tla in spec/)."""
    wd = mkwork(main)
    try:
        for f in os.listdir(SPEC):
            if f.endswith(".tla") and (modules is None or f[:-4] in modules or f[:-4] == main):
                shutil.copy(os.path.join(SPEC, f), wd)
        for name, text in (data or {}).items():
            with open(os.path.join(wd, name + ".tla"), "w") as fh:
                fh.write(text)
        with open(os.path.join(wd, "MC.cfg"), "w") as fh:
            fh.write(cfg)
        # "fast": short runs (seconds) - C1 only, serial GC: half the wall time and a quarter of the CPU of
        # the default flags, so 16 JVMs can run side by side; "throughput": long exhaustive runs.
        flags = ["-XX:+UseSerialGC", "-XX:TieredStopAtLevel=1"] if jvm == "fast" else ["-XX:+UseParallelGC"]
        cmd = ["java", *flags, "-Xmx" + heap, "-Xss16m", "-cp", JAR, "tlc2.TLC",
               "-workers", str(workers), "-metadir", os.path.join(wd, "meta"), "-noGenerateSpecTE",
               "-config", "MC.cfg"]
        if not deadlock:
            cmd.append("-deadlock")      # -deadlock = do NOT check for deadlock
        if coverage:
            cmd += ["-coverage", "1"]
        if simulate:
            cmd += ["-simulate", simulate]
        if depth is not None:
            cmd += ["-depth", str(depth)]
        if dfid is not None:
            cmd += ["-dfid", str(dfid)]
        if seed is not None:
            cmd += ["-seed", str(seed)]
        cmd.append(main + ".tla")
        e = dict(os.environ)
        e.update(env or {})
        t0 = time.time()
        try:
            p = subprocess.run(cmd, cwd=wd, capture_output=True, text=True, timeout=timeout, env=e)
        except subprocess.TimeoutExpired as ex:
            raise TLCError("TLC timeout after %ds on %s" % (timeout, main)) from ex
        out = p.stdout + ("\n" + p.stderr if p.stderr.strip() else "")
        r = TLCResult(out=out, wall=time.time() - t0, workdir=wd if keep else "")
        m = None
        for m in _STATS.finditer(out):
            pass
        if m:
            r.generated, r.distinct = int(m.group(1)), int(m.group(2))
        if simulate is not None and not r.generated:
            ms = re.search(r"The number of states generated: (\d+)", out)
            if ms:
                r.generated = r.distinct = int(ms.group(1))      # states visited along the simulated behaviours
        m = _DEPTH.search(out)
        if m:
            r.depth = int(m.group(1))
        for m in _VIOL.finditer(out):
            r.violated.append(next((g for g in m.groups() if g), "temporal"))
        r.completed = ("Model checking completed. No error has been found." in out) or \
                      (simulate is not None and "Finished in" in out and not r.violated and "Error:" not in out)
        if coverage:
            for m in _COV.finditer(out):
                r.coverage[m.group(1)] = (int(m.group(3)), int(m.group(4)))
        if not r.completed and not (allow_violation and r.violated):
            tail = "\n".join(out.splitlines()[-40:])
            raise TLCError("TLC did not complete on %s (exit %s):\n%s" % (main, p.returncode, tail))
        return r
    finally:
        if not keep:
            shutil.rmtree(wd, ignore_errors=True)
        else:
            shutil.rmtree(os.path.join(wd, "meta"), ignore_errors=True)


def run_many(jobs: list[dict], parallel: int = 10) -> list[TLCResult]:
    """Run several independent TLC invocations concurrently (each kwargs for run_tlc)."""
    if not jobs:
        return []
    with ThreadPoolExecutor(max_workers=min(parallel, len(jobs))) as ex:
        futs = [ex.submit(run_tlc, **j) for j in jobs]
        return [f.result() for f in futs]


def sany(path: str) -> tuple[bool, str]:
    p = subprocess.run(["java", "-cp", JAR, "tla2sany.SANY", os.path.basename(path)], cwd=os.path.dirname(path),
                       capture_output=True, text=True)
    ok = p.returncode == 0 and "Semantic errors" not in p.stdout and "Parse Error" not in p.stdout \
        and "***Parse" not in p.stdout and "Fatal" not in p.stdout
    return ok, p.stdout + p.stderr


# ------------------------------------------------------------------ literals
def tla_str(s: str) -> str:
    return '"' + s.replace("\\", "\\\\").replace('"', '\\"') + '"'


def tla(v) -> str:
    """Python value -> TLA+ literal.  dict -> record (str keys) , list/tuple -> sequence,
    set/frozenset -> set, bool, int, str.  ('fn', dict) -> explicit function via :> and @@."""
    if isinstance(v, bool):
        return "TRUE" if v else "FALSE"
    if isinstance(v, int):
        return str(v)
    if isinstance(v, str):
        return tla_str(v)
    if isinstance(v, tuple) and len(v) == 2 and v[0] == "fn" and isinstance(v[1], dict):
        if not v[1]:
            return "<<>>"
        return "(" + " @@ ".join("%s :> %s" % (tla(k), tla(x)) for k, x in v[1].items()) + ")"
    if isinstance(v, dict):
        if not v:
            return "<<>>"
        return "[" + ", ".join("%s |-> %s" % (k, tla(x)) for k, x in v.items()) + "]"
    if isinstance(v, (list, tuple)):
        return "<<" + ", ".join(tla(x) for x in v) + ">>"
    if isinstance(v, (set, frozenset)):
        return "{" + ", ".join(sorted(tla(x) for x in v)) + "}"
    raise TypeError("no TLA literal for %r" % (v,))


def data_module(name: str, defs: dict[str, str], extends: str = "Naturals, Sequences, TLC") -> str:
    body = "\n".join("%s ==\n  %s\n" % (k, v) for k, v in defs.items())
    return "---- MODULE %s ----\nEXTENDS %s\n%s\n====\n" % (name, extends, body)


# ------------------------------------------------------------------ parsing TLC-printed values
class _P:
    def __init__(self, s, pos=0):
        self.s, self.pos = s, pos

    def ws(self):
        s = self.s
        while self.pos < len(s) and s[self.pos] in " \n\t\r":
            self.pos += 1

    def val(self):
        self.ws()
        s = self.s
        if s.startswith("<<", self.pos):
            self.pos += 2
            out = []
            self.ws()
            while not s.startswith(">>", self.pos):
                out.append(self.val())
                self.ws()
                if s[self.pos] == ",":
                    self.pos += 1
                self.ws()
            self.pos += 2
            return tuple(out)
        c = s[self.pos]
        if c == "{":
            self.pos += 1
            out = []
            self.ws()
            while s[self.pos] != "}":
                out.append(self.val())
                self.ws()
                if s[self.pos] == ",":
                    self.pos += 1
                self.ws()
            self.pos += 1
            return frozenset(out)
        if c == "[":
            self.pos += 1
            d = {}
            self.ws()
            while s[self.pos] != "]":
                m = re.match(r"(\w+)\s*\|->", s[self.pos:])
                self.pos += m.end()
                d[m.group(1)] = self.val()
                self.ws()
                if s[self.pos] == ",":
                    self.pos += 1
                self.ws()
            self.pos += 1
            return _Rec(d)
        if c == "(":                       # function printed as (a :> b @@ c :> d)
            self.pos += 1
            d = {}
            self.ws()
            while s[self.pos] != ")":
                k = self.val()
                self.ws()
                assert s.startswith(":>", self.pos), s[self.pos:self.pos + 20]
                self.pos += 2
                d[k] = self.val()
                self.ws()
                if s.startswith("@@", self.pos):
                    self.pos += 2
                self.ws()
            self.pos += 1
            return _Rec(d)
        if c == '"':
            j = self.pos + 1
            buf = []
            while s[j] != '"':
                if s[j] == "\\":
                    j += 1
                buf.append(s[j])
                j += 1
            self.pos = j + 1
            return "".join(buf)
        m = re.match(r"-?\d+", s[self.pos:])
        if m:
            self.pos += m.end()
            return int(m.group(0))
        m = re.match(r"TRUE|FALSE", s[self.pos:])
        if m:
            self.pos += m.end()
            return m.group(0) == "TRUE"
        m = re.match(r"\w+", s[self.pos:])     # model value
        if m:
            self.pos += m.end()
            return m.group(0)
        raise TLCError("cannot parse TLC value at: " + s[self.pos:self.pos + 60])


class _Rec(dict):
    """hashable record/function value (so it can live inside frozensets)"""
    def __hash__(self):
        return hash(tuple(sorted(self.items(), key=repr)))


def parse_value(s: str):
    return _P(s).val()


def extract(out: str, tag: str) -> list:
    """All values printed as <<"tag", ...>> (PrintT of a tuple), parsed."""
    res = []
    rx = re.compile(r'<<\s*"%s"' % re.escape(tag))
    i = 0
    while True:
        m = rx.search(out, i)
        if not m:
            break
        p = _P(out, m.start())
        try:
            res.append(p.val())
        except (IndexError, AssertionError, AttributeError) as ex:
            raise TLCError("unparsable TLC print near: " + out[m.start():m.start() + 200]) from ex
        i = p.pos
    return res


def chunks(seq: list, n: int) -> list[list]:
    n = max(1, min(n, len(seq)))
    k, r = divmod(len(seq), n)
    out, i = [], 0
    for j in range(n):
        sz = k + (1 if j < r else 0)
        out.append(seq[i:i + sz])
        i += sz
    return [c for c in out if c]
