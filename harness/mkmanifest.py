"""Writes /verif/MANIFEST.json from the table below (run after adding a check)."""
import json
import os

VERIF = os.path.dirname(os.path.dirname(os.path.abspath(__file__)))

CLAIMED = {
 "C01": ("TLC generates Jobs_k(D) from spec/JobDef.tla for the corpus, every member of fragment F up to the tier's event bound, 552 systematic depth-3 members (nesting triples) and seeded larger members; the real learner runs on each complete job set and on every proper subset of the small job sets; TLC validates every input job as a trace of JobDef instantiated with the emitted diagram. Exhaustive over small members of the family, sampled above; each case decided exactly by TLC.",
         "JobDef.tla is the meaning of a diagram; harness lexer/parser; janus shim; TLC", "3, 4/C01",
         "TLC generation + trace validation against spec/JobDef.tla instantiated with the learned diagram"),
 "C02": ("Language inclusion Jobs_2(D') <= L(D) decided by TLC: generation mode on the learned diagram, trace mode (loops unbounded) against the source definition; reachable err (break across a join) reported in its own right.",
         "loop bound 2; sampled above the job cap; JobDef.tla semantics", "4/C02",
         "TLC language inclusion at loop bound 2 between learned and source JobDef instances"),
 "C03": ("Every case is learned under several presentations (job/event order, fresh ids, timestamp shift, duplicated job) and interpreter hash seeds in separate processes; language equality at bound 2 between the reference and each variant is decided by TLC (generation + cross trace validation).",
         "uuid4 seeded in child processes for reproducibility; pairs equal up to branch order skipped", "4/C03",
         "TLC cross trace validation of Jobs_2 between variant diagrams (spec/JobDef.tla)"),
 "C05": ("The token stream of every emitted file is validated by TLC as a trace of the push-down recogniser spec/PumlSyntax.tla (frame, block nesting, separators, break/detach placement, names exact, no placeholder); the recogniser itself is model-checked in generation mode (stack discipline, determinism) and cross-checked against the harness parser.",
         "harness lexer (line -> token); placeholder names recognised lexically", "4/C05",
         "TLC trace validation of emitted token streams against spec/PumlSyntax.tla"),
 "C09": ("spec/Store.tla (implementation-shaped model of the SQL data holder) is model-checked for UniqueExact over paged hashing and arbitrary representatives; executions of the real otel_to_pv with find_unique_graphs on exhaustive small and seeded larger forests are validated by TLC: UniqueExactP on the observed tables (shapes computed by the TLA+ operator), conformance to Store.tla.",
         "xxh64 collisions outside the model; one root per trace; includes histories through the command line with -ug", "4/C09-C15",
         "TLC model checking of spec/Store.tla + TLC trace validation (StoreObs.tla clauses, Store.tla conformance)"),
 "C10": ("spec/Store.tla is model-checked exhaustively over all streams up to the bound (3 ids x 2 versions x parents, one id also under another trace id), all batch sizes, one and two ingesting runs: UniqueEid, NoCrash, IngestExact, LinksKept; the same streams and seeded longer ones are run through the real SQLDataHolder and every logged execution is validated by TLC (conformance to Store.tla incl. the inferred flush/filter/retry steps; IngestExactP on the observed tables).",
         "sqlite through SQLAlchemy; timestamps on a minute grid", "4/C09-C15",
         "TLC model checking of spec/Store.tla + TLC trace validation of logged executions"),
 "C11": ("Action properties CleanInconsistentExact / CleanWindowExact / CleanNamesExact on spec/Store.tla (declarative clause vs the association-table implementation) for every interleaving of ingestion; executions of the real cleaning on combinations of twelve (three of them with two anomalies in one trace) trace templates x buffers x batch sizes validated by TLC, plus the frame condition through the pipeline (twin scenario without the removed traces, PV sequences compared by TLC).",
         "no cross-trace parents; one root per trace", "4/C09-C15",
         "TLC action properties on spec/Store.tla + TLC trace validation of logged cleaning steps"),
 "C12": ("StreamExact on spec/Store.tla; the nested generators of the real stream_data are consumed as the pipeline does and the logged sequence of (name, trace, spans, children) is validated by TLC (once, whole, partition of the filtered store, reaches the PV output). One data-holder object used in phases (ingest, stream, ingest more, stream again) is covered by the actions StreamDirect / Reenter.",
         "one root per trace", "4/C09-C15",
         "TLC model checking of spec/Store.tla + TLC trace validation of logged streams"),
 "C15": ("Run histories as behaviours of spec/Store.tla (process boundary = in-memory state reset, tables kept): NoCrash, SameAnswer, UniqueExact for all histories up to the bound; histories of separate processes on one sqlite file with flags ingest/ug/save-events executed on the real code and validated by TLC (every run completes, same PV sequences, same selected shape classes). All runs without the unique-graph filter must output the same set of traces (C15sameset), including with a time buffer.",
         "most runs are forked processes calling otel_to_pv; a small family of histories goes through python -m tel2puml otel2pv [-ni] [-ug] -se", "4/C15",
         "TLC model checking of run histories on spec/Store.tla + TLC validation of logged multi-process histories"),
 "C08": ("spec/Sequencer.tla states the documented sequencing rules twice (closed form and stack machine; TLC checks they agree and the structural invariants on all small trees); TLC enumerates all span trees up to the bound x modes x maps, the real sequencer runs on each, and TLC compares observed links with Expected and evaluates the invariants; seeded larger trees likewise.",
         "documented rules as read in Sequencer.tla; touching windows and rename-of-renamed kept out of inputs", "4/C08",
         "TLC enumeration of span trees + TLC comparison of observed PV links with spec/Sequencer.tla"),
 "C16": ("spec/PvTime.tla: exact calendar arithmetic on limb-encoded integers; TLC checks its self-consistency on the boundary grid and validates every observed (input, output) pair of the two converters and the round trip (boundary grid exhaustively, seeded instants). Nanosecond-precision instants must come out as the truncated or the next microsecond and ordered pairs of them must never be reversed.",
         "TLC as exact-arithmetic oracle of a transcribed pure function", "4/C16",
         "TLC evaluation of spec/PvTime.tla on observed conversion pairs"),
 "C04": ("spec/ModelCache.tla (model = out/in multiset-sets, staleness flag, cached tree, file) is model-checked for RoundTrip, UnionIsOrderFree and CacheCoherent; its behaviours are replayed on real Event objects / save / load; end to end, all ordered splits of job sets into chunks crossing -om/-im are learned and compared with the one-shot diagram by TLC language equality. The documented multi-workflow procedure is also run through the command line (otel2puml -om, then -im with every saved model) and compared with one run on all the data.",
         "JobDef.tla semantics; loop bound 2", "4/C04",
         "TLC model checking of spec/ModelCache.tla + behaviours replayed into Event/save/load + TLC language equality"),
 "C06": ("spec/Gates.tla enumerates every gate tree up to the bound and its outcome family Out(tree); the real calculate_logic_gates runs on each family; TLC evaluates Out(tree) <= Out(inferred) for all and equality on the exactness sub-class.",
         "TLC as oracle of the denotation; pm4py tree -> literal projection", "4/C06",
         "TLC enumeration of gate trees + TLC evaluation of spec/Gates.tla denotations"),
 "C07": ("spec/LoopExtract.tla: abstract extraction machine model-checked on every rooted digraph with 3 nodes (termination, the four invariants); spec/LoopNest.tla: the invariants (acyclic, single entry, partition, cycles inside, well-formed bodies) evaluated by TLC on the nesting returned by the real detect_loops for every F/corpus case with loops.",
         "graph projection (nodes, edges, sub graphs)", "4/C07",
         "TLC validation of observed loop nestings against spec/LoopNest.tla"),
 "C13": ("spec/FieldMap.tla: documented meaning of a field mapping applied to a JSON document; TLC computes the expected records for enumerated small and seeded larger documents x mappings; the real JSONDataSource must yield exactly those, in whole-file and per-line modes.",
         "documentation as read in FieldMap.tla; no booleans; unique keys", "4/C13",
         "TLC evaluation of spec/FieldMap.tla as reference interpreter vs JSONDataSource output"),
 "C14": ("Both routes through the real CLI; spec/Pipeline.tla validates save/load (renaming, links, fields) as a trace; per workflow the two diagrams are compared by TLC language equality.",
         "JobDef.tla semantics", "4/C14",
         "TLC trace validation of spec/Pipeline.tla + TLC language equality of the two routes' diagrams"),
}

ORDER = ["C%02d" % i for i in range(1, 17)]


def main():
    have = {f[:-3].upper() for f in os.listdir(os.path.join(VERIF, "harness", "checks"))
            if f.startswith("c") and f[1:3].isdigit() and f.endswith(".py")}
    pending = json.load(open(os.path.join(VERIF, "harness", "pending.json"))) if os.path.exists(
        os.path.join(VERIF, "harness", "pending.json")) else {}
    checks, na = [], []
    for pid in ORDER:
        if pid in have and pid not in pending:
            text, note, ref, tech = CLAIMED[pid]
            checks.append({"property_id": pid, "quick_cmd": "./check %s --tier quick" % pid,
                           "thorough_cmd": "./check %s --tier thorough" % pid,
                           "evidence_file": "/verif/evidence/%s.json" % pid,
                           "replay_cmd_template": "./check %s --replay {path}" % pid, "engine": "tlc",
                           "level_claimed": {"category": "model_checking", "text": text, "design_ref": "DESIGN.md section " + ref},
                           "level_note": note, "technique": tech})
        else:
            na.append({"property_id": pid, "reason": pending.get(pid) or
                       "check under construction (the TLA+ specification applies; see DESIGN.md section 4) - not yet claimed"})
    m = {"version": 1, "setup_cmd": "./setup.sh",
         "hooks": {"guard": "OTEL2PUML_VERIF",
                   "enable": "checks run the repository code from /repo's working tree in child processes with OTEL2PUML_VERIF=1 and PYTHONPATH=/verif/harness/shim:/repo (nothing is built; observation is at public API returns, so no source hook is needed)",
                   "baseline_off_cmd": "cd /repo && /venv/bin/python -m pytest -ra -q -p no:cacheprovider --timeout=900 --continue-on-collection-errors",
                   "source_commits": [], "add_only": True},
         "engines": [{"name": "tlc", "path": "/verif/harness/tlc.py", "serves_properties": [c["property_id"] for c in checks],
                      "kind_free_text": "TLC 1.8 explicit-state model checker on the TLA+ modules under /verif/spec; behaviours replayed into the code and traces of the code validated against the specs"}],
         "checks": checks, "notes": "see DESIGN.md; known findings in known_findings.json", "not_applicable": na}
    json.dump(m, open(os.path.join(VERIF, "MANIFEST.json"), "w"), indent=1)
    print("claimed:", [c["property_id"] for c in checks], "not claimed:", [x["property_id"] for x in na])


if __name__ == "__main__":
    main()
