"""Verdicts, known findings, replay files and evidence shared by all checks."""
from __future__ import annotations

import hashlib
import json
import os
import sys
import time

HARNESS = os.path.dirname(os.path.abspath(__file__))
VERIF = os.path.dirname(HARNESS)
EVIDENCE = os.path.join(VERIF, "evidence")
REPLAYS = os.path.join(VERIF, "replays")
FINDINGS = os.path.join(VERIF, "known_findings.json")
MAX_REPORTED = 25


def load_findings():
    if not os.path.exists(FINDINGS):
        return []
    with open(FINDINGS) as fh:
        return json.load(fh)["findings"]


class Check:
    """One run of one property's check."""

    def __init__(self, pid: str, tier: str, seed: int, level: str = "model_checking", clean: bool = True):
        self.pid, self.tier, self.seed, self.level = pid, tier, seed, level
        self.t0 = time.time()
        self.violations = []      # unlisted violations (dicts)
        self.known = {}           # finding id -> count of matched violations
        self.findings = [f for f in load_findings() if f["property"] == pid and f.get("status") == "open"]
        self.samples = []
        self.notes = []
        self.suppressed = 0       # unlisted violations beyond MAX_REPORTED (counted, not written out)
        if clean and os.path.isdir(REPLAYS):
            for f in os.listdir(REPLAYS):
                if f.startswith(pid + "-"):
                    os.remove(os.path.join(REPLAYS, f))

    # -- violations ---------------------------------------------------------
    def _match(self, key: str, signature: str, ast=None, jobs=None, ctx=None):
        import findings as fmod
        for f in self.findings:
            m = f["match"]
            if "key" in m and m["key"] != key:
                continue
            if "signature" in m and not (signature == m["signature"] if m.get("exact") else
                                         signature.startswith(m["signature"])):
                continue
            if "signature_re" in m:
                import re
                if not re.match(m["signature_re"], signature):
                    continue
            if "predicate" in m:
                if ast is None or not fmod.PREDICATES[m["predicate"]](ast):
                    continue
            if "digests" in m:
                got = (ctx or {}).get("digests")
                if not got or not set(got) <= set(m["digests"]):
                    continue
            if "rule" in m:
                if ast is None or not fmod.RULES[m["rule"]](ast, jobs, ctx or {}):
                    continue
            return f
        return None

    def violation(self, key: str, signature: str, detail: dict, ast=None, jobs=None, ctx=None) -> bool:
        """Report that the property fails on case `key` with failure `signature`.
        Returns True if it was an unlisted violation (counts against the exit status)."""
        f = self._match(key, signature, ast, jobs, ctx)
        if f is not None:
            if f["id"] not in self.known:
                print("KNOWN-FINDING: property=%s %s [%s]" % (self.pid, f["what"], f["id"]))
            self.known[f["id"]] = self.known.get(f["id"], 0) + 1
            return False
        if len(self.violations) >= MAX_REPORTED:
            self.suppressed += 1
            return True
        os.makedirs(REPLAYS, exist_ok=True)
        body = {"property": self.pid, "key": key, "signature": signature, "tier": self.tier, "seed": self.seed,
                "detail": detail}
        digest = hashlib.sha1(json.dumps([self.pid, key, signature], sort_keys=True).encode()).hexdigest()[:12]
        path = os.path.join(REPLAYS, "%s-%s.json" % (self.pid, digest))
        with open(path, "w") as fh:
            json.dump(body, fh, indent=1, default=_default)
        self.violations.append({"key": key, "signature": signature, "replay": path})
        print("VIOLATION property=%s replay=%s" % (self.pid, path))
        print("  case: %s\n  what: %s" % (key[:300], signature[:300]))
        return True

    # -- evidence -----------------------------------------------------------
    def finish(self, coverage: dict, assumptions: list[str] | None = None) -> int:
        os.makedirs(EVIDENCE, exist_ok=True)
        cov = dict(coverage)
        cov.setdefault("samples", self.samples[:5] or ["(no case explored)"])
        ev = {"property_id": self.pid, "tier": self.tier, "seed": self.seed, "level": self.level,
              "coverage": cov, "assumptions": assumptions or [], "wall_s": round(time.time() - self.t0, 2),
              "violations": len(self.violations) + self.suppressed,
              "known_findings_matched": self.known, "notes": self.notes}
        with open(os.path.join(EVIDENCE, self.pid + ".json"), "w") as fh:
            json.dump(ev, fh, indent=1, default=_default)
        n = len(self.violations) + self.suppressed
        if self.suppressed:
            print("(%d further unlisted violations not written out)" % self.suppressed)
        print("%s %s tier=%s seed=%d: %s (%d unlisted violation(s), %d known finding(s) matched) in %.0fs" % (
            self.pid, "FAIL" if n else "PASS", self.tier, self.seed,
            "property violated" if n else "property held on everything explored", n, len(self.known),
            time.time() - self.t0))
        return 1 if n else 0


def _default(o):
    if isinstance(o, (set, frozenset)):
        return sorted(o, key=repr)
    if isinstance(o, tuple):
        return list(o)
    return repr(o)


def env_seed() -> int:
    try:
        return int(os.environ.get("VERIF_SEED", "0"))
    except ValueError:
        return 0


def machinery_failure(pid: str, exc: BaseException) -> int:
    import traceback
    traceback.print_exc()
    print("MACHINERY-FAILURE property=%s %s: %s (no verdict claimed)" % (pid, type(exc).__name__, str(exc)[:400]),
          file=sys.stderr)
    return 2
