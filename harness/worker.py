"""Child-process worker: reads cases (JSON lines) from a file, runs the real otel2puml code
on each, writes one JSON result line per case (flushed), so that a crash or hang of the
code under test is attributable to one case.

Usage: python worker.py <cases.jsonl> <results.jsonl>
Environment: PYTHONPATH must contain /verif/harness/shim and the repo root (set by learner.py);
PYTHONHASHSEED is chosen by the driver.
"""
import json
import logging
import os
import signal
import sys
import time
import traceback

logging.disable(logging.CRITICAL)
sys.path.insert(0, os.path.dirname(os.path.abspath(__file__)))

import ops  # noqa: E402


class _Timeout(Exception):
    pass


def _alarm(*_a):
    raise _Timeout()


def main():
    cases_path, res_path = sys.argv[1], sys.argv[2]
    signal.signal(signal.SIGALRM, _alarm)
    try:
        ops.warm()
    except Exception:  # noqa: BLE001  (an import failure is reported per case below)
        pass
    with open(cases_path) as fh, open(res_path, "a") as out:
        for line in fh:
            case = json.loads(line)
            t0 = time.time()
            res = {"cid": case["cid"]}
            signal.alarm(int(case.get("timeout", 120)))
            try:
                res.update(ops.dispatch(case))
                res["ok"] = True
            except _Timeout:
                res.update(ok=False, error="TIMEOUT", kind="timeout")
            except Exception as e:  # noqa: BLE001  (the code under test may raise anything)
                tb = traceback.extract_tb(e.__traceback__)
                where = ""
                for fr in reversed(tb):
                    if "/harness/" not in fr.filename:
                        where = "%s:%d" % (os.path.basename(fr.filename), fr.lineno)
                        break
                in_harness = bool(tb) and "/harness/" in tb[-1].filename and not isinstance(e, ops.ImplError)
                res.update(ok=False, error="%s: %s" % (type(e).__name__, str(e)[:300]), where=where,
                           kind="harness" if in_harness else "exception")
            finally:
                signal.alarm(0)
            res["wall"] = round(time.time() - t0, 3)
            out.write(json.dumps(res) + "\n")
            out.flush()


if __name__ == "__main__":
    main()
