"""Binding to spec/Gates.tla: enumeration of gate trees (configurations), TLC as the oracle of their denotation."""
from __future__ import annotations

import itertools

import tlc

OPS = ("xor", "and", "or")


def partitions(items, minblocks=2):
    """set partitions of a list into at least minblocks blocks (canonical: first elements increasing)"""
    items = list(items)
    if not items:
        yield []
        return
    first, rest = items[0], items[1:]
    for k in range(len(rest) + 1):
        for comb in itertools.combinations(rest, k):
            block = [first] + list(comb)
            remaining = [x for x in rest if x not in comb]
            for p in partitions_any(remaining):
                if len(p) + 1 >= minblocks:
                    yield [block] + p


def partitions_any(items):
    items = list(items)
    if not items:
        yield []
        return
    first, rest = items[0], items[1:]
    for k in range(len(rest) + 1):
        for comb in itertools.combinations(rest, k):
            block = [first] + list(comb)
            remaining = [x for x in rest if x not in comb]
            for p in partitions_any(remaining):
                yield [block] + p


def trees_over(events, depth, parent_op=None):
    """all gate trees whose leaves are exactly `events` (each once), depth <= `depth` gate levels, operators alternating
    between levels, every gate with >= 2 children; children in canonical (partition) order"""
    events = list(events)
    if len(events) == 1:
        yield ("leaf", events[0])
        return
    if depth == 0:
        return
    for op in OPS:
        if op == parent_op:
            continue
        for part in partitions(events, 2):
            for kids in itertools.product(*[list(trees_over(b, depth - 1, op)) for b in part]):
                yield (op, list(kids))


def all_trees(nmax, depth=3):
    names = ["e%d" % k for k in range(1, nmax + 1)]
    out = []
    for n in range(1, nmax + 1):
        out.extend(trees_over(names[:n], depth))
    return out


def tree_tla(t):
    if t[0] == "leaf":
        return '[op |-> "leaf", e |-> "%s", c |-> <<>>]' % t[1]
    return '[op |-> "%s", e |-> "", c |-> <<%s>>]' % (t[0], ", ".join(tree_tla(k) for k in t[1]))


def tree_text(t):
    return t[1] if t[0] == "leaf" else "%s(%s)" % (t[0].upper(), ",".join(tree_text(k) for k in t[1]))


def relabel(t, m):
    return ("leaf", m[t[1]]) if t[0] == "leaf" else (t[0], [relabel(k, m) for k in t[1]])


def _run(defs, n, stats, shard=3000):
    idx = list(range(n))
    nsh = max(1, (n + shard - 1) // shard)
    return [idx[i::nsh] for i in range(nsh)]


def families(trees, stats=None):
    """Out(tree) and membership of the exactness sub-class for every tree, computed by TLC"""
    shards = _run(None, len(trees), stats)
    runs = [dict(main="Gates", cfg="INIT Init\nNEXT Next\nINVARIANT Report\nINVARIANT OutSane\n",
                 data={"GateData": tlc.data_module("GateData", {
                     "Trees": "<<\n " + ",\n ".join(tree_tla(trees[i]) for i in s) + "\n>>", "Pairs": "<<>>"},
                     extends="Naturals, Sequences")},
                 modules=["Gates"], workers=1, allow_violation=False, timeout=1800) for s in shards]
    fam = [None] * len(trees)
    for s, r in zip(shards, tlc.run_many(runs, 10)):
        if stats is not None:
            stats["states"] = stats.get("states", 0) + r.distinct
            stats["generated"] = stats.get("generated", 0) + r.generated
        for v in tlc.extract(r.out, "FAM"):
            fam[s[v[1] - 1]] = (sorted(sorted(x) for x in v[2]), bool(v[3]))
    if any(f is None for f in fam):
        raise tlc.TLCError("Gates did not print every family")
    return fam


def judge(pairs, stats=None):
    """pairs: (source tree, inferred tree).  Returns dicts {wf, sound, exact, exactable, missing, extra} decided by TLC"""
    shards = _run(None, len(pairs), stats)
    runs = [dict(main="Gates", cfg="INIT Init\nNEXT Next\nINVARIANT Report\n",
                 data={"GateData": tlc.data_module("GateData", {
                     "Trees": "<<>>",
                     "Pairs": "<<\n " + ",\n ".join("[src |-> %s, inf |-> %s]" % (tree_tla(pairs[i][0]), tree_tla(pairs[i][1]))
                                                  for i in s) + "\n>>"}, extends="Naturals, Sequences")},
                 modules=["Gates"], workers=1, allow_violation=False, timeout=1800) for s in shards]
    out = [None] * len(pairs)
    for s, r in zip(shards, tlc.run_many(runs, 10)):
        if stats is not None:
            stats["states"] = stats.get("states", 0) + r.distinct
            stats["generated"] = stats.get("generated", 0) + r.generated
        for v in tlc.extract(r.out, "V"):
            out[s[v[1] - 1]] = {"wf": v[2], "sound": v[3], "exact": v[4], "exactable": v[5],
                                "missing": sorted(sorted(x) for x in v[6]), "extra": sorted(sorted(x) for x in v[7])}
    if any(o is None for o in out):
        raise tlc.TLCError("Gates did not judge every pair")
    return out
