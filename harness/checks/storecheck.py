"""Shared engine of the store checks (C09, C10, C11, C12, C15): B3 model checking of spec/Store.tla, execution of
scenarios on the real code, TLC validation of the logged executions (StoreObs.tla: the property clauses on the
observed tables; Store.tla: conformance of the execution to the implementation-shaped model)."""
import json

import store
import tlc


def compact(scn):
    def sp(s):
        return "%s<%s/%s/%s/%s@%d-%d" % (s["eid"], s["par"], s["job"], s["name"], s["ty"], s["s"], s["e"])
    runs = []
    for r in scn["runs"]:
        fl = ("I" if r["ing"] else "-") + ("U" if r["ug"] else "-") + ("S" if r.get("se") else "-") + \
             ("o" if r.get("only_ingest") else "")
        runs.append(fl + "[" + " ".join(sp(s) for s in r.get("spans", [])) + "]")
    return "B=%d buf=%d %s" % (scn["B"], scn["buf"], " ; ".join(runs))


def b3(chk, configs):
    """run the exhaustive configurations; a violated invariant of the *model* is a design-level counterexample:
    it is reported as a violation of the property (the model mirrors the code; the conformance run binds it)."""
    tot = {"states": 0, "transitions": 0, "runs": [], "actions": {}}
    for label, kw in configs:
        r = store.exhaustive(coverage=False, **kw)
        tot["states"] += r.distinct
        tot["transitions"] += r.generated
        tot["runs"].append({"config": label, "distinct": r.distinct, "generated": r.generated, "depth": r.depth,
                            "wall_s": round(r.wall, 1), "violated": r.violated})
        for v in r.violated:
            chk.violation("model:" + label, "model-invariant:" + v,
                          {"config": label, "violated": v, "tlc_tail": r.out[-6000:]})
    return tot


def run_and_validate(chk, scns, clauses, *, twins_fn=None, stats=None, label=""):
    """returns (number of executions validated, number of drifting executions)"""
    logs = store.run_scenarios(scns)
    twins = None
    if twins_fn is not None:
        tw_scn = [twins_fn(s, lg) for s, lg in zip(scns, logs)]
        idx = [i for i, t in enumerate(tw_scn) if t is not None]
        tw_logs = store.run_scenarios([tw_scn[i] for i in idx])
        twins = [None] * len(scns)
        for i, lg in zip(idx, tw_logs):
            twins[i] = lg
    st = stats if stats is not None else {}
    bad, drift = store.validate(scns, logs, twins, stats=st)
    ndrift = 0
    for i, scn in enumerate(scns):
        mine = [(c, ln) for c, ln in bad[i] if c in clauses]
        if mine:
            c, ln = mine[0]
            line = logs[i][ln - 1]
            chk.violation(compact(scn), c, {"scenario": scn, "clause": c, "line_number": ln,
                                            "line": {k: v for k, v in line.items() if k != "pv"},
                                            "all_bad_clauses": bad[i], "log": logs[i][:60],
                                            "twin_log": twins[i][:40] if twins and twins[i] else None})
        if drift[i] is not None:
            ndrift += 1
            if ndrift <= 3:
                print("MODEL-DRIFT (not a verdict): spec/Store.tla follows only %d of %d logged lines of scenario %s"
                      % (drift[i], len(logs[i]), compact(scn)[:200]))
    if ndrift:
        chk.notes.append("%s%d of %d executions are not behaviours of spec/Store.tla (model drift; the property clauses "
                         "were still evaluated on the observed tables)" % (label, ndrift, len(scns)))
    if not chk.samples and scns:
        k = len(scns) // 2
        chk.samples.append({"scenario": compact(scns[k]), "log_excerpt": [
            {"op": d["op"], "run": d["run"], "status": d["post"]["status"], "nodes": len(d["post"]["nodes"]),
             "assoc": len(d["post"]["assoc"]), "npend": d["post"]["npend"]} for d in logs[k][:12]]})
    return len(scns) + (sum(1 for t in twins if t) if twins else 0), ndrift


def replay(chk, path, clauses, twins_fn=None):
    body = json.load(open(path))
    scn = body["detail"].get("scenario")
    if scn is None:
        print("replay of a model-level counterexample: re-run the check")
        return 2
    run_and_validate(chk, [scn], clauses, twins_fn=twins_fn)
    return 1 if chk.violations else 0
