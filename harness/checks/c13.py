"""C13 - field-mapping extraction follows the documented path semantics.

spec/FieldMap.tla is a reference interpreter of the documented meaning of a field mapping (flattening of nested arrays,
header values repeated, key/value lookup in an attribute array, priority fall-backs, '_' concatenation, null for
absent values, invalid records skipped) - independent of jq.  Cases are OTel-shaped documents (several resource /
scope groups, missing keys, explicit nulls, empty and absent arrays, numeric and textual timestamps, invalid
timestamps) x mappings built from the documented forms.  The real JSONDataSource reads each case as whole-file JSON
(one document per file) and as one JSON per line (all documents in one file); TLC computes the expected spans and
compares them with the yielded OTelEvents (as bags); both modes must agree with the specification."""
import random

import fieldmap
import learner

LEVEL = "model_checking"


def cases(tier, seed):
    rnd = random.Random(repr(("c13", seed)))
    out = []
    n = 500 if tier == "quick" else 4000
    for k in range(n):
        m = fieldmap.default_mapping() if k % 6 == 0 else (fieldmap.random_mapping(rnd) if k % 2 else fieldmap.free_mapping(rnd))
        holes = rnd.choice([0.0, 0.0, 0.04, 0.08, 0.15, 0.3])
        docs = [fieldmap.random_doc(rnd, holes=holes) for _ in range(rnd.randint(1, 3))]
        out.append({"docs": docs, "map": m})
    # small exhaustive family: one resource / scope / span with each optional key present / null / absent
    base_span = {"trace_id": "t1", "span_id": "s1", "parent_span_id": None, "name": "/get", "start_time_unix_nano": 1723544132228102912,
                 "end_time_unix_nano": "1723544132228219285",
                 "attributes": [fieldmap.attr("http.method", "StringValue", "GET"), fieldmap.attr("http.response", "IntValue", "200")]}
    for key in ["trace_id", "span_id", "name", "start_time_unix_nano", "end_time_unix_nano", "attributes", "parent_span_id"]:
        for variant in ("absent", "null"):
            sp = dict(base_span)
            if variant == "absent":
                sp.pop(key)
            else:
                sp[key] = None
            doc = {"resource_spans": [{"resource": {"attributes": [fieldmap.attr("service.name", "StringValue", "svc")]},
                                       "scope_spans": [{"scope": {"name": "sc"}, "spans": [sp, dict(base_span, span_id="s2")]}]}]}
            out.append({"docs": [doc], "map": fieldmap.default_mapping()})
    for arrs in ({"resource_spans": []}, {}, {"resource_spans": [{"scope_spans": []}]}, {"resource_spans": [{}]},
                 {"resource_spans": [{"scope_spans": [{"spans": []}, {"scope": {"name": "x"}}]}]}):
        out.append({"docs": [arrs, {"resource_spans": [{"resource": {"attributes": [fieldmap.attr("service.name", "StringValue", "svc")]},
                                                        "scope_spans": [{"scope": {"name": "sc"}, "spans": [base_span]}]}]}],
                    "map": fieldmap.default_mapping()})
    return out


# further layouts of per-line files: an empty line after the last document, no newline after the last document, one
# single-line file per document
EXTRA_LAYOUTS = ["lines-blank-end", "lines-no-newline", "lines-files", "whole-nested", "whole-filepath"]


def layout_of(c, k):
    lay = EXTRA_LAYOUTS[k % len(EXTRA_LAYOUTS)]
    return "whole-nested" if lay == "whole-filepath" and len(c["docs"]) != 1 else lay


def observe(cs):
    chunk = 25
    work = [{"cid": "f%d" % k, "op": "fieldmap", "timeout": 900,
             "cases": [{"docs": c["docs"], "field_mapping": fieldmap.to_field_mapping(c["map"], fieldmap.FORMS[(k + j) % len(fieldmap.FORMS)]),
                        "modes": ["whole", "lines", layout_of(c, k + j)]}
                       for j, c in enumerate(cs[k:k + chunk])]}
            for k in range(0, len(cs), chunk)]
    res = learner.run_cases(work, parallel=14)
    outs = []
    for w in work:
        r = res[w["cid"]]
        if not r.get("ok"):
            raise RuntimeError("fieldmap worker failed: %s" % r)
        outs.extend(r["outs"])
    return outs


def norm(evs):
    out = []
    for e in evs:
        r = {f: e.get(f) for f in fieldmap.FIELDS}
        out.append(r)
    return out


def evaluate(chk, cs, outs, stats):
    jc, jo, owner = [], [], []
    for ci, (c, o) in enumerate(zip(cs, outs)):
        for mode in sorted(o):
            if "error" in o[mode]:
                chk.violation("case %d (%s)" % (ci, mode), "raised:" + o[mode]["error"].split(":")[0],
                              {"docs": c["docs"], "field_mapping": fieldmap.to_field_mapping(c["map"]), "error": o[mode]["error"]})
                continue
            jc.append(c)
            jo.append(norm(o[mode]["events"]))
            owner.append((ci, mode))
    verdicts = fieldmap.judge(jc, jo, stats)
    nrec = 0
    for (ci, mode), v, obs in zip(owner, verdicts, jo):
        nrec += v["records"]
        if not v["equal"]:
            c = cs[ci]
            chk.violation("case %d" % ci, "records:" + mode,
                          {"docs": c["docs"], "field_mapping": fieldmap.to_field_mapping(c["map"]), "mode": mode,
                           "observed": obs, "expected": repr(v["expected"])[:4000]})
    return len(jc), nrec


def run(chk, tier, seed):
    cs = cases(tier, seed)
    outs = observe(cs)
    stats = {}
    n, nrec = evaluate(chk, cs, outs, stats)
    k = len(cs) // 3
    chk.samples = [{"docs": cs[k]["docs"], "field_mapping": fieldmap.to_field_mapping(cs[k]["map"]),
                    "observed_whole_file": outs[k]["whole"]}]
    nontriv = sum(1 for c, o in zip(cs, outs) if len(o["whole"].get("events", [])) >= 2)
    cov = {"states": stats.get("states", 0), "transitions": stats.get("generated", 0),
           "traces_validated_against_impl": n, "evaluations": n, "distinct_nontrivial": nontriv,
           "rule": "seeded OTel-shaped documents (1-3 per case; 1-2 resources x 0-2 scopes x 0-3 spans; keys absent / null with "
                   "probability 0-0.4; empty and absent arrays; numeric, textual and invalid timestamps) x mappings drawn from "
                   "the documented forms (plain path, header value, key/value lookup, priority list, concatenation), plus a "
                   "small exhaustive family (each optional key absent / null; empty / absent arrays at every level); mappings written "
                   "in three surface forms of the same documented meaning (plain strings and omitted key_value / explicit nulls / "
                   "every position an array); each case "
                   "in whole-file and one-JSON-per-line mode, plus one further file layout (empty line after the last "
                   "document / no final newline / one single-line file per document / nested sub-directories / a single file given "
                   "by filepath); non-trivial = at least two spans extracted",
           "records_flattened_by_the_specification": nrec, "exhaustive": False}
    return cov, ["all array prefixes of a mapping lie on one chain (resource_spans -> scope_spans -> spans)",
                 "key values of a lookup are unique inside their attribute array; documents contain no booleans",
                 "mapped paths end on scalars; which texts denote integers is decided by the harness (regular expression)"]


def replay(chk, path):
    import json
    body = json.load(open(path))
    print(json.dumps(body["detail"], indent=1)[:4000])
    return run(chk, "quick", chk.seed) and (1 if chk.violations else 0)
