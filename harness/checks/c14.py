"""C14 - otel2puml equals otel2pv followed by pv2puml through saved files.

Seeded multi-workflow trace sets are written as OTel JSON; both routes run through the real CLI entry point
(python -m tel2puml): route A `otel2puml`; route B `otel2pv -se [-mc M]` followed, per workflow folder, by
`pv2puml -fp <folder> -jn <workflow> [-mc M]`; x {default, custom} field-name mapping x {sync, async} sequencing.
spec/Pipeline.tla is validated as a trace of the seam: the in-memory PV stream (otel_to_pv with the same
configuration), the saved files (keys renamed, all events / links / field values) and the events pv2puml loads back;
TLC checks each stage and loaded = streamed.  Per workflow the diagrams of the two routes must have equal alphabets
and equal languages at loop bound 2 (TLC, spec/JobDef.tla)."""
import os
import random
import shutil
import tempfile
from concurrent.futures import ThreadPoolExecutor

import jobdef
import learn_engine as le
import learner
import pipeline
import puml

LEVEL = "model_checking"


def one_case(args):
    k, seed, async_flag, custom, base = args
    rnd = random.Random(repr(("c14", seed, k)))
    d = os.path.join(base, "case%d" % k)
    os.makedirs(d)
    docs = pipeline.dataset(rnd)
    pipeline.write_case(d, docs, async_flag, custom)
    routes = pipeline.run_routes(d, custom)
    work = [{"cid": "s", "op": "pv_stream", "config": os.path.join(d, "configC.yaml"), "timeout": 300},
            {"cid": "l", "op": "pv_load", "dir": os.path.join(d, "pv"),
             "mapping": os.path.join(d, "mapping.yaml") if custom else None, "timeout": 300}]
    res = learner.run_cases(work, parallel=2)
    return {"k": k, "async": async_flag, "custom": custom, "docs": docs, "routes": routes,
            "pumlA": pipeline.read_pumls(os.path.join(d, "outA")), "pumlB": pipeline.read_pumls(os.path.join(d, "outB")),
            "files": pipeline.read_files(os.path.join(d, "pv")), "stream": res["s"], "load": res["l"]}


def run(chk, tier, seed):
    n = 12 if tier == "quick" else 120
    base = tempfile.mkdtemp(prefix="c14-", dir=learner.WORK if os.path.isdir(learner.WORK) else None)
    try:
        maps = [None] + pipeline.CUSTOM_MAPS
        args = [(k, seed, k % 2 == 1, maps[(k // 2) % len(maps)], base) for k in range(n)]
        with ThreadPoolExecutor(max_workers=6) as ex:
            cases = list(ex.map(one_case, args))
    finally:
        shutil.rmtree(base, ignore_errors=True)
    stats = jobdef.Stats()
    pstats = {}
    runs, rowner = [], []
    pairs, powner = [], []
    for c in cases:
        key = "case %d (seed %d, %s, %s mapping)" % (c["k"], seed, "async" if c["async"] else "sync",
                                                     "custom %s" % sorted((k, v) for k, v in c["custom"].items() if k != v) if c["custom"] else "default")
        detail = {"async": c["async"], "custom_mapping": c["custom"], "documents": c["docs"],
                  "routes": {"A": c["routes"]["A"], "B1": c["routes"]["B1"], "B2": c["routes"]["B2"]}}
        ra, rb1 = c["routes"]["A"], c["routes"]["B1"]
        b2fail = [(wf, r) for wf, r in c["routes"]["B2"] if r["rc"] != 0]
        if rb1["rc"] != 0:
            chk.violation(key, "cli-failed:otel2pv", dict(detail, failed=rb1))
            continue
        # the learner itself may refuse a data set (e.g. NotImplementedError for a break under a fork): that is not a
        # difference between the routes as long as both routes refuse it with the same exception
        cls = lambda r: r["exception"].split(":")[0].strip()      # noqa: E731
        if ra["rc"] != 0 and not any(cls(r) == cls(ra) for _wf, r in b2fail):
            chk.violation(key, "cli-failed:otel2puml-only", dict(detail, failed=ra, pv2puml_failures=b2fail))
            continue
        if ra["rc"] == 0 and b2fail:
            chk.violation(key, "cli-failed:pv2puml-only", dict(detail, failed=b2fail[0][1], workflow=b2fail[0][0]))
            continue
        refused = {wf.replace(" ", "_") for wf, _r in b2fail}
        if not c["stream"].get("ok") or not c["load"].get("ok"):
            chk.violation(key, "stage-failed", dict(detail, stream=c["stream"], load=c["load"]))
            continue
        mp = c["custom"] or pipeline.DEFAULT_MAP
        runs.append((mp, c["stream"]["jobs"], c["files"], c["load"]["jobs"]))
        rowner.append((key, detail))
        both = (set(c["pumlA"]) & set(c["pumlB"])) - refused
        if ra["rc"] == 0 and set(c["pumlA"]) != set(c["pumlB"]):
            chk.violation(key, "workflows", dict(detail, route_a=sorted(c["pumlA"]), route_b=sorted(c["pumlB"])))
            continue
        for wf in sorted(both):
            try:
                a, b = puml.parse(c["pumlA"][wf]), puml.parse(c["pumlB"][wf])
            except puml.PumlError as e:
                chk.violation(key, "unparsable", dict(detail, workflow=wf, error=str(e), a=c["pumlA"][wf], b=c["pumlB"][wf]))
                continue
            if puml.events_of(a) != puml.events_of(b):
                chk.violation(key, "alphabet", dict(detail, workflow=wf, a=c["pumlA"][wf], b=c["pumlB"][wf]))
                continue
            pairs.append((a, b))
            powner.append((key, wf, detail, c["pumlA"][wf], c["pumlB"][wf]))
    for (key, detail), bad in zip(rowner, pipeline.validate(runs, pstats) if runs else []):
        for b in bad:
            chk.violation(key, "pipeline:" + b, detail)
    verdicts, ntr = le.lang_compare(pairs, stats=stats) if pairs else ([], 0)
    for v, (key, wf, detail, ta, tb) in zip(verdicts, powner):
        if v is not None:
            chk.violation(key, "language", dict(detail, workflow=wf, info=v, route_a=ta, route_b=tb))
    if cases:
        c = cases[len(cases) // 2]
        chk.samples = [{"async": c["async"], "custom_mapping": c["custom"], "workflows": sorted(c["pumlA"]),
                        "route_a": c["pumlA"], "saved_files": len(c["files"])}]
    cov = {"states": stats.distinct + pstats.get("states", 0), "transitions": stats.generated + pstats.get("generated", 0),
           "traces_validated_against_impl": len(runs) + ntr, "evaluations": len(cases),
           "distinct_nontrivial": sum(1 for c in cases if len(c["pumlA"]) >= 2),
           "rule": "seeded data sets of 2-3 workflows x 2-4 traces (call trees with optional, alternative and overlapping "
                   "children) x {default, 5 custom mappings: fresh names / names that are defaults of other fields / swap / partial} x {sync, async}; both routes through python -m tel2puml; "
                   "non-trivial = at least two workflows",
           "cli_invocations": sum(2 + len(c["routes"]["B2"]) for c in cases), "diagram_pairs_compared": len(pairs),
           "exhaustive": False}
    return cov, ["language equality at loop bound 2", "sqlite file databases, one per route",
                 "the in-memory stream is obtained by calling otel_to_pv with the same configuration on a third database"]


def replay(chk, path):
    import json
    print(json.dumps(json.load(open(path))["detail"], indent=1)[:3000])
    return run(chk, "quick", chk.seed) and (1 if chk.violations else 0)
