"""C04 - updating a saved model equals learning from all data at once.

Layer 1, spec/ModelCache.tla (the model as state: successor / predecessor bags, staleness flag, cached tree, file):
  B3: TLC checks CacheCoherent, UnionIsOrderFree and RoundTrip for every history of ingest / read-tree / save / load
      actions up to the bound, over several job sets;
  B1: every reachable state is printed with its history; the harness replays each history on real Event objects
      (update_and_create_events_from_clustered_pvevents, Event.logic_gate_tree, save_events_to_file,
      load_events_from_file) and compares the projection (event types, bags with counts, staleness, which bags the
      returned tree was computed from) after every action.
Layer 2, end to end: for the corpus and fragment-F cases every ordered split of the job set into 2-3 chunks
  (exhaustive over split points for small sets, seeded otherwise, including an empty later chunk) is learned through
  pv_streams_to_puml_files with -om / -im at every boundary; TLC decides language equality at loop bound 2 between
  the final diagram and the one-shot diagram (spec/JobDef.tla).
Layer 3, the documented procedure through the command line with several workflows at once: otel2puml -om on one part of an
  OTel data set, otel2puml -im <every saved model> -om on the rest, against otel2puml on all the data; per workflow equal
  alphabets and languages (TLC)."""
import itertools

import jobdef
import learn_engine as le
import learner
import puml
import tlc

LEVEL = "model_checking"
START = "|||START|||"
DRIFT = []


# ------------------------------------------------------------------ layer 1
def mc_job_sets():
    """small job sets over few event types: XOR, AND fork, repeated type (counts), and evidence that does not recur"""
    def job(*edges, evs):
        # evs: {id: type}; edges: (pred, succ)
        out = [{"id": 0, "ty": START, "pv": []}]
        for i, t in evs.items():
            pv = [a for a, b in edges if b == i]
            out.append({"id": i, "ty": t, "pv": pv if pv else [0]})
        return out
    xor_and = [job((1, 2), (2, 4), evs={1: "A", 2: "B", 4: "D"}),
               job((1, 3), (3, 4), evs={1: "A", 3: "C", 4: "D"}),
               job((1, 2), (1, 3), (2, 4), (3, 4), evs={1: "A", 2: "B", 3: "C", 4: "D"})]
    counts = [job((1, 2), (1, 3), (2, 4), (3, 4), evs={1: "A", 2: "B", 3: "B", 4: "D"}),
              job((1, 2), (2, 4), evs={1: "A", 2: "B", 4: "D"}),
              job((1, 2), (1, 3), (1, 5), evs={1: "A", 2: "B", 3: "B", 5: "C"})]
    return [("xor-and", xor_and), ("counts", counts)]


def job_tla(j):
    return "{" + ", ".join('[id |-> %d, ty |-> "%s", pv |-> {%s}]' % (e["id"], e["ty"], ", ".join(str(p) for p in e["pv"]))
                           for e in j) + "}"


def layer1(chk, tier):
    cfg = "INIT Init\nNEXT Next\nINVARIANT Report\nINVARIANT CacheCoherent\nINVARIANT UnionIsOrderFree\nPROPERTY RoundTrip\n"
    depth = 4 if tier == "quick" else 5
    states = gen = replayed = steps = 0
    for name, jobs in mc_job_sets():
        data = {"MCData": tlc.data_module("MCData", {"Jobs": "<<" + ", ".join(job_tla(j) for j in jobs) + ">>",
                                                     "MaxHist": str(depth), "LoadMarksStale": "TRUE"},
                                          extends="Naturals, Sequences")}
        r = tlc.run_tlc("ModelCache", cfg, data, modules=["ModelCache"], workers=4, jvm="throughput", timeout=1800)
        states += r.distinct
        gen += r.generated
        for v in r.violated:
            chk.violation("model:" + name, "model-invariant:" + v, {"jobs": jobs, "tlc_tail": r.out[-5000:]})
        sts = tlc.extract(r.out, "ST")
        leaves = {}
        for _tag, hist, known, proj in sts:
            leaves[tuple(hist)] = (known, proj)
        # replay maximal histories (every prefix is compared on the way)
        maximal = [h for h in leaves if len(h) == depth]
        work = []
        maximal.sort()
        chunk = 300
        for k in range(0, len(maximal), chunk):
            work.append({"cid": "%s%d" % (name, k), "op": "model_replay", "jobs": jobs,
                         "hists": [[list(a) for a in h] for h in maximal[k:k + chunk]], "timeout": 1200})
        res = learner.run_cases(work, parallel=14)
        for w in work:
            rr = res[w["cid"]]
            if not rr.get("ok"):
                raise RuntimeError("model replay failed: %s" % rr)
            import json
            for key, ob in rr["obs"].items():
                h = json.loads(key)
                steps += 1
                replayed += len(h) == depth
                known, proj = leaves[tuple(tuple(a) for a in h)]
                diff = compare(known, proj, ob)
                if diff:
                    chk.violation("history %s on job set %s" % (h, name), "model-replay:" + diff[0],
                                  {"jobs": jobs, "history": h, "difference": diff, "observed": ob,
                                   "expected": repr((known, proj))[:3000]})
    return states, gen, replayed, steps


def _bags(fs):
    return sorted(sorted([list(p) for p in b]) for b in fs)


def compare(known, proj, ob):
    """model state (TLC) vs projection of the real objects after the same history; returns None or a description"""
    if "error" in ob:
        return ("raised", ob["error"])
    if sorted(known) != sorted(ob["types"]):
        return ("types", sorted(known), sorted(ob["types"]))
    for t in known:
        p, o = proj[t], ob["types"][t]
        if _bags(p["o"]) != o["out"]:
            return ("out-bags", t, _bags(p["o"]), o["out"])
        if _bags(p["i"]) != o["in"]:
            return ("in-bags", t, _bags(p["i"]), o["in"])
        if o.get("stale") is not None and bool(p["s"]) != o["stale"]:
            DRIFT.append(("stale-flag", t, bool(p["s"]), o["stale"]))       # internal detail: not a verdict
        has, src = p["c"]
        if o["tree"] is None:
            if has:
                return ("tree-missing", t, _bags(src))
        else:
            if not has:
                return ("tree-unexpected", t, o["tree"])
            if o["tree"] != o["tree_of"].get(repr(_bags(src))):
                return ("tree-not-of-current-bags", t, _bags(src), o["tree"])
    return None


# ------------------------------------------------------------------ layer 2
def splits(n, rnd, exhaustive_upto=6, sampled=3):
    """ordered splits of 0..n-1 into 2 or 3 chunks (by split points of a seeded permutation), plus the degenerate
    split with an empty later chunk"""
    out = [[list(range(n)), []]]
    if n <= exhaustive_upto:
        order = list(range(n))
        for a in range(1, n):
            out.append([order[:a], order[a:]])
            for b in range(a + 1, n):
                out.append([order[:a], order[a:b], order[b:]])
        perm = list(range(n))
        rnd.shuffle(perm)
        for a in range(1, n):
            out.append([perm[:a], perm[a:]])
    else:
        for _ in range(sampled):
            perm = list(range(n))
            rnd.shuffle(perm)
            a = rnd.randrange(1, n)
            out.append([perm[:a], perm[a:]])
            if n >= 3:
                a, b = sorted(rnd.sample(range(1, n), 2))
                out.append([perm[:a], perm[a:b], perm[b:]])
    return out


def layer2(chk, tier, seed, stats):
    if tier == "quick":
        named = le.corpus_defs() + le.f_defs(4) + le.sampled_defs(40, seed, 5, 12, 60)
        cap = 40
    else:
        named = le.corpus_defs() + le.f_defs(5) + le.sampled_defs(300, seed, 5, 14, 150)
        cap = 150
    defs = [d for _, d in named]
    jobs, _ = jobdef.gen_jobs(defs, 2, stats=stats)
    cases, owner = [], []
    for di, (name, d) in enumerate(named):
        js = jobs[di]
        if len(js) < 2 or len(js) > cap:
            continue
        rnd = le.rng(seed, "c04", name)
        sp = splits(len(js), rnd, exhaustive_upto=4 if tier == "quick" else 6, sampled=2 if tier == "quick" else 3)
        # workflow names as users write them: plain, with a space, with other characters that need no escaping
        jn = ["j", "order flow", "Wf-2.a"][di % 3]
        cases.append({"cid": "%d.ref" % di, "op": "learn_chunks", "chunks": [[jobdef.job_json(j) for j in js]],
                      "present": {"pseed": seed, "job_name": jn}, "uuid_seed": seed, "timeout": 300})
        owner.append((di, None))
        for si, s in enumerate(sp):
            cases.append({"cid": "%d.%d" % (di, si), "op": "learn_chunks",
                          "chunks": [[jobdef.job_json(js[i]) for i in ch] for ch in s],
                          "present": {"pseed": seed + 1 + si, "job_name": jn}, "uuid_seed": seed + si, "timeout": 300})
            owner.append((di, s))
    res = learner.run_cases(cases)
    ref = {}
    for c, (di, s) in zip(cases, owner):
        if s is None:
            ref[di] = le.parse_output(res[c["cid"]])
    pairs, pinfo = [], []
    for c, (di, s) in zip(cases, owner):
        if s is None:
            continue
        a0, p0 = ref[di]
        a, p = le.parse_output(res[c["cid"]])
        name, d = named[di]
        detail = {"definition": puml.to_text(d), "split": s, "jobs": [jobdef.job_json(j) for j in jobs[di]],
                  "one_shot_emitted": res["%d.ref" % di].get("text"), "chunked_emitted": res[c["cid"]].get("text"),
                  "chunked_texts": res[c["cid"]].get("texts")}
        if (a0 is None) != (a is None) or (a0 is None and p0["kind"] != p["kind"]):
            chk.violation(name, "outcome", dict(detail, one_shot=p0 or "diagram", chunked=p or "diagram"), ast=d)
            continue
        if a0 is None:
            continue
        if puml.events_of(a0) != puml.events_of(a):
            chk.violation(name, "alphabet", dict(detail, difference=sorted(puml.events_of(a0) ^ puml.events_of(a))), ast=d)
            continue
        pairs.append((a0, a))
        pinfo.append((name, d, detail))
    verdicts, ntr = le.lang_compare(pairs, stats=stats)
    for v, (name, d, detail) in zip(verdicts, pinfo):
        if v is not None:
            chk.violation(name, "language", dict(detail, info=v), ast=d)
    k = len(cases) // 2
    chk.samples.append({"definition": puml.to_text(named[owner[k][0]][1]), "split": owner[k][1],
                        "chunked_emitted": res[cases[k]["cid"]].get("text")})
    return len(cases), len(pairs), ntr, sum(1 for _di, s in owner if s is not None and len(s) >= 2 and s[-1])


# ------------------------------------------------------------------ layer 3: the documented procedure through the CLI
def cli_case(args):
    """several workflows at once, as the README describes it: otel2puml -om on the first part of the data, then otel2puml
    -im <every saved model> -om on the rest (a fresh database), against otel2puml on all the data"""
    import os
    import random
    import pipeline
    k, seed, base = args
    rnd = random.Random(repr(("c04cli", seed, k)))
    d = os.path.join(base, "case%d" % k)
    docs = pipeline.dataset(rnd, nwf=(2, 3))
    idx = list(range(len(docs)))
    rnd.shuffle(idx)
    cut = rnd.randrange(1, len(docs))
    parts = {"all": docs, "c1": [docs[i] for i in sorted(idx[:cut])], "c2": [docs[i] for i in sorted(idx[cut:])]}
    for name, ds in parts.items():
        os.makedirs(os.path.join(d, name))
        pipeline.write_case(os.path.join(d, name), ds, k % 2 == 1, None)
    runs = {"ref": pipeline.cli(["-o", os.path.join(d, "ref"), "otel2puml", "-c", os.path.join(d, "all", "configA.yaml")], d),
            "r1": pipeline.cli(["-o", os.path.join(d, "o1"), "otel2puml", "-c", os.path.join(d, "c1", "configA.yaml"), "-om"], d)}
    models = sorted(os.path.join(d, "o1", f) for f in os.listdir(os.path.join(d, "o1")) if f.endswith("_model.json")) \
        if os.path.isdir(os.path.join(d, "o1")) else []
    if k % 3 == 2:
        models.reverse()
    im = [x for m in models for x in ("-im", m)]
    runs["r2"] = pipeline.cli(["-o", os.path.join(d, "o2"), "otel2puml", "-c", os.path.join(d, "c2", "configA.yaml"), "-om"] + im, d)
    p1, p2 = pipeline.read_pumls(os.path.join(d, "o1")), pipeline.read_pumls(os.path.join(d, "o2"))
    final = dict(p1)
    final.update(p2)
    return {"k": k, "runs": runs, "ref": pipeline.read_pumls(os.path.join(d, "ref")), "final": final, "first": p1, "second": p2,
            "models": [os.path.basename(m) for m in models], "split": [sorted(idx[:cut]), sorted(idx[cut:])], "documents": docs}


def layer3(chk, tier, seed, stats):
    import os
    import shutil
    import tempfile
    from concurrent.futures import ThreadPoolExecutor
    n = 6 if tier == "quick" else 60
    base = tempfile.mkdtemp(prefix="c04cli-", dir=learner.WORK if os.path.isdir(learner.WORK) else None)
    try:
        with ThreadPoolExecutor(max_workers=6) as ex:
            cases = list(ex.map(cli_case, [(k, seed, base) for k in range(n)]))
    finally:
        shutil.rmtree(base, ignore_errors=True)
    pairs, owner = [], []
    for c in cases:
        key = "cli case %d (seed %d): otel2puml -om on files %s, then -im %s on files %s" % (
            c["k"], seed, c["split"][0], c["models"], c["split"][1])
        detail = {"split": c["split"], "models_passed": c["models"], "runs": c["runs"], "documents": c["documents"],
                  "one_shot": c["ref"], "first_run": c["first"], "second_run": c["second"]}
        cls = lambda r: r["exception"].split(":")[0].strip()      # noqa: E731
        rcs = {k: r["rc"] for k, r in c["runs"].items()}
        if rcs["ref"] != 0:
            # the learner refuses the whole data set: the chunked procedure must end in the same refusal
            if all(rcs[k] == 0 for k in ("r1", "r2")):
                chk.violation(key, "cli:outcome", dict(detail, one_shot="refused", chunked="diagrams"))
            continue
        if rcs["r1"] != 0 or rcs["r2"] != 0:
            bad = c["runs"]["r1"] if rcs["r1"] != 0 else c["runs"]["r2"]
            chk.violation(key, "cli:outcome", dict(detail, one_shot="diagrams", chunked="failed: " + cls(bad)))
            continue
        if set(c["ref"]) != set(c["final"]):
            chk.violation(key, "cli:workflows", dict(detail, one_shot_workflows=sorted(c["ref"]), chunked_workflows=sorted(c["final"])))
            continue
        for wf in sorted(c["ref"]):
            try:
                a, b = puml.parse(c["ref"][wf]), puml.parse(c["final"][wf])
            except puml.PumlError as e:
                chk.violation(key, "cli:unparsable", dict(detail, workflow=wf, error=str(e)))
                continue
            if puml.events_of(a) != puml.events_of(b):
                chk.violation(key, "cli:alphabet", dict(detail, workflow=wf, difference=sorted(puml.events_of(a) ^ puml.events_of(b))))
                continue
            pairs.append((a, b))
            owner.append((key, wf, detail))
    verdicts, ntr = le.lang_compare(pairs, stats=stats) if pairs else ([], 0)
    for v, (key, wf, detail) in zip(verdicts, owner):
        if v is not None:
            chk.violation(key, "cli:language", dict(detail, workflow=wf, info=v))
    return len(cases), len(pairs), ntr


def run(chk, tier, seed):
    st1, gen1, replayed, steps = layer1(chk, tier)
    stats = jobdef.Stats()
    ncases, npairs, ntr, nontriv = layer2(chk, tier, seed, stats)
    ncli, nclipairs, ntr3 = layer3(chk, tier, seed, stats)
    ntr += ntr3
    if DRIFT:
        print("MODEL-DRIFT (not a verdict): the staleness flag of the real Event objects differs from spec/ModelCache.tla "
              "in %d replay steps, e.g. %r" % (len(DRIFT), DRIFT[0]))
        chk.notes.append("staleness flag differs from the model in %d replay steps (the tree handed out was still compared)"
                         % len(DRIFT))
    cov = {"states": st1 + stats.distinct, "transitions": gen1 + stats.generated,
           "traces_validated_against_impl": replayed + ntr, "evaluations": replayed + ncases,
           "distinct_nontrivial": nontriv,
           "rule": "layer 1: every history of <= 4 (thorough 5) ingest/read/save/load actions over two job sets, replayed on "
                   "real Event objects with the projection compared after every action; layer 2: corpus + F (exhaustive up "
                   "to the tier's bound) + samples, every ordered split into 2-3 chunks for small job sets (seeded "
                   "otherwise) and the empty later chunk; layer 3: seeded OTel data sets of 2-3 workflows split into two parts, "
                   "python -m tel2puml otel2puml -om on the first part, then otel2puml -im <all saved models> -om on the second "
                   "(fresh database), compared per workflow with otel2puml on all the data; "
                   "non-trivial = split whose last chunk is not empty",
           "model_histories_replayed": replayed, "model_replay_steps_compared": steps, "chunked_learner_runs": ncases,
           "pairs_compared_by_tlc": npairs, "cli_multi_workflow_cases": ncli, "cli_pairs_compared_by_tlc": nclipairs,
           "exhaustive": False}
    return cov, ["language equality at loop bound 2", "job sets above the cap are skipped",
                 "the staleness flag is read from Event._update_since_logic_gate_tree when that attribute exists"]


def replay(chk, path):
    import json
    print(json.dumps(json.load(open(path))["detail"], indent=1)[:4000])
    return run(chk, "quick", chk.seed) and (1 if chk.violations else 0)
