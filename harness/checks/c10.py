"""C10 - ingestion stores each span once whatever the batching or duplication.

B3: TLC explores spec/Store.tla exhaustively: every stream up to the bound over 3 span ids x 2 payload versions x
    parent placements, every batch size, one and two ingesting runs with cleaning in between; invariants UniqueEid,
    NoCrash, IngestExact, NothingPending, LinksKept.
B2: the same streams (exhaustive up to the tier's length) and seeded longer ones, including re-ingestion by a second
    process, are run through the real SQLDataHolder via IngestData.load_to_data_holder; the tables are read back after
    every save_data and after the context exit; TLC checks that each logged execution is a behaviour of Store.tla and
    evaluates the C10 clauses (StoreObs.tla) on the observed tables."""
import store
import storegen
from checks import storecheck as sc

LEVEL = "model_checking"
CLAUSES = {"C10crash", "C10unique", "C10exact"}


def b3_configs(tier):
    u = store.universe_ingest()
    if tier == "quick":
        return [("single-run-len4", dict(spans=u, maxlen=4, batches=(1, 2, 3, 5), invs=store.INVS_INGEST)),
                ("two-runs-len2-cleaning", dict(spans=u, maxlen=2, batches=(1, 2, 3), maxruns=2, clean_on=True,
                                                invs=store.INVS_INGEST))]
    u1 = [x for x in u if x["job"] == "j1"]
    return [("single-run-len4-two-traces", dict(spans=u, maxlen=4, batches=(1, 2, 3, 5), invs=store.INVS_INGEST, timeout=3000)),
            ("single-run-len5", dict(spans=u1, maxlen=5, batches=(1, 2, 3, 4, 6), invs=store.INVS_INGEST, timeout=3000)),
            ("two-runs-len3-cleaning", dict(spans=u, maxlen=3, batches=(1, 2, 3, 4), maxruns=2, clean_on=True,
                                            invs=store.INVS_INGEST, timeout=3000)),
            ("simulate-4-runs-len8", dict(spans=u, maxlen=8, batches=(1, 2, 3, 4, 6, 9), maxruns=4, clean_on=True,
                                          invs=store.INVS_INGEST, simulate="num=30000", depth=200, workers=8, timeout=3000))]


def scenarios(tier, seed):
    if tier == "quick":
        return storegen.c10_exhaustive(3) + storegen.c10_random(400, seed)
    # length 4 over the 12 records of one trace, lengths 1-3 over all 14 (with the id re-used under another trace id)
    return storegen.c10_exhaustive(3, batches=(1, 2, 3, 4, storegen.BIG)) + \
        storegen.c10_exhaustive(4, batches=(1, 2, 3, 4, storegen.BIG), base_only=True, only_len=4) + storegen.c10_random(4000, seed)


def run(chk, tier, seed):
    m = sc.b3(chk, b3_configs(tier))
    scns = scenarios(tier, seed)
    st = {}
    n, ndrift = sc.run_and_validate(chk, scns, CLAUSES, stats=st)
    dup = sum(1 for s in scns if len({x["eid"] for r in s["runs"] for x in r.get("spans", [])}) <
              sum(len(r.get("spans", [])) for r in s["runs"]))
    cov = {"states": m["states"] + st.get("conf_states", 0) + st.get("obs_states", 0),
           "transitions": m["transitions"] + st.get("conf_generated", 0) + st.get("obs_generated", 0),
           "traces_validated_against_impl": n, "evaluations": n, "distinct_nontrivial": dup,
           "rule": "all streams up to the tier's length over 14 span records (3 ids x 2 versions x parents, one id also under another trace id) x batch sizes, "
                   "plus seeded streams of 3-12 spans over 2-6 ids, half of them with a second ingesting process; "
                   "non-trivial = scenario whose streams contain a duplicate span id",
           "model_runs": m["runs"], "model_drift_executions": ndrift, "conformance_action_counts": st.get("actions", {}),
           "exhaustive": False}
    return cov, ["timestamps on a one-minute grid", "sqlite reached through SQLAlchemy as in the repository's tests",
                 "parents point to lower span ids or to missing spans (no cycles)"]


def replay(chk, path):
    return sc.replay(chk, path, CLAUSES)
