"""C08 - call trees are sequenced exactly as the sequencing rules specify.

spec/Sequencer.tla states the documented rules as a closed form (Expected) and as a post-order stack machine.
B3: TLC runs the machine on every case and checks machine = closed form, every span linked once, acyclic,
    descendants first (and single start where the documented rules imply it).
B2: the real sequence_otel_job_id_streams runs on every case (all rooted trees up to the tier's size with interval
    endpoints on a grid x {sync, async} x prior-information / rename maps, plus seeded trees up to 30 spans);
    TLC compares the emitted job with Expected: every span once, fields copied, types (rename), links.
    The timestamp field is validated against spec/PvTime.tla (end time -> PV string).
    A further family goes through one run of the real otel_to_pv per group of 2-3 workflows: the prior-information and
    rename maps travel through the configuration (looked up per workflow name), the spans through the SQL data holder;
    every emitted job is compared with Expected for its own workflow's maps."""
import learner
import seqr
import tlc
from checks import c16

LEVEL = "model_checking"


def cases(tier, seed):
    if tier == "quick":
        return seqr.exhaustive(3, 4) + seqr.exhaustive(4, 2, cfgs=seqr.CFGS[:3]) + \
            seqr.flat(3, 4, cfgs=[seqr.CFGS[0], seqr.CFGS[1], seqr.CFGS[3]]) + seqr.random_cases(300, seed)
    return seqr.exhaustive(3, 6) + seqr.exhaustive(4, 3) + seqr.flat(3, 5, modes=(False, True)) + \
        seqr.flat(4, 3, cfgs=[seqr.CFGS[0], seqr.CFGS[1]]) + seqr.random_cases(4000, seed)


def observe(cs, seed):
    chunk = 2000
    work = [{"cid": "q%d" % k, "op": "sequence", "cases": [dict(c, job=seqr.JOB, name=seqr.NAME, app=seqr.APP)
                                                           for c in cs[k:k + chunk]], "seed": seed + k, "timeout": 900}
            for k in range(0, len(cs), chunk)]
    res = learner.run_cases(work, parallel=14)
    outs = []
    for w in work:
        r = res[w["cid"]]
        if not r.get("ok"):
            raise RuntimeError("sequencer worker failed: %s" % r)
        outs.extend(r["outs"])
    return outs


def to_obs(c, o):
    """emitted PV job -> obs records (span numbers; 0 = an id that is not a span of the tree)"""
    def num(i):
        if isinstance(i, str) and i.startswith("s") and i[1:].isdigit() and 1 <= int(i[1:]) <= c["n"]:
            return int(i[1:])
        return 0
    return [{"id": num(e.get("eventId")), "ty": str(e.get("eventType")), "prev": sorted({num(p) for p in e.get("previousEventIds", [])}),
             "job": str(e.get("jobId")), "name": str(e.get("jobName")), "app": str(e.get("applicationName"))} for e in o["pv"]]


def describe(c):
    spans = " ".join("s%d:%s[%d,%d]<s%d" % (i + 1, c["ty"][i], c["s"][i], c["e"][i], c["par"][i]) for i in range(c["n"]))
    return "%s %s grp=%s ren=%s" % ("async" if c["async"] else "sync", spans, c["grp"], [(r["from"], r["to"], r["kids"]) for r in c["ren"]])


def evaluate(chk, cs, outs, stats):
    obs = []
    for c, o in zip(cs, outs):
        if "error" in o:
            chk.violation(describe(c), "raised:" + o["error"].split(":")[0], {"case": c, "error": o["error"]})
            obs.append(None)
        elif o["njobs"] != 1:
            chk.violation(describe(c), "jobs:%d" % o["njobs"], {"case": c, "emitted": o})
            obs.append(None)
        else:
            obs.append(to_obs(c, o))
    verdicts = seqr.validate(cs, obs, stats=stats)
    for c, o, v in zip(cs, outs, verdicts):
        if v not in ("ok", "expected-only"):
            chk.violation(describe(c), v, {"case": c, "emitted": o.get("pv"), "verdict": v})
    # timestamps: PV string of the end time, judged by PvTime.tla
    pairs = {}
    for c, o in zip(cs, outs):
        for e in o.get("pv", []):
            i = e.get("eventId", "")
            if isinstance(i, str) and i[1:].isdigit() and 1 <= int(i[1:]) <= c["n"]:
                pairs.setdefault((seqr.T0 + c["e"][int(i[1:]) - 1] * seqr.MIN, e.get("timestamp")), describe(c))
    ol, meta = [], []
    for (ns, txt), where in pairs.items():
        p = c16.fields(txt) if isinstance(txt, str) else None
        if p is None:
            chk.violation(where, "timestamp-format", {"end_ns": ns, "timestamp": txt})
            continue
        ol.append('[k |-> "n2p", x |-> %s, p |-> %s]' % (c16.inst_tla(c16.split(ns)), c16.pv_tla(p)))
        meta.append((ns, txt, where))
    if ol:
        r = tlc.run_tlc("PvTime", "INIT Init\nNEXT Next\nINVARIANT Report\n",
                        {"PvData": tlc.data_module("PvData", {"DayRange": "{}", "Obs": "<<\n " + ",\n ".join(ol) + "\n>>"}, extends="Integers, Sequences")},
                        modules=["PvTime"], workers=1, allow_violation=False)
        stats["states"] = stats.get("states", 0) + r.distinct
        stats["generated"] = stats.get("generated", 0) + r.generated
        for v in tlc.extract(r.out, "BAD"):
            ns, txt, where = meta[v[1] - 1]
            chk.violation(where, "timestamp", {"end_ns": ns, "timestamp": txt})
    return len(cs), len(ol)


def pipeline_family(chk, tier, seed, stats):
    """the same rules through ONE run of the real otel_to_pv per group of 2-3 workflows: the maps come from the
    configuration (per workflow name), the spans from the data holder's grouped stream"""
    groups = seqr.pipeline_groups(30 if tier == "quick" else 300, seed)
    work = [{"cid": "p%d" % k, "op": "sequence_pipeline", "groups": groups[k:k + 10], "seed": seed + k, "timeout": 900}
            for k in range(0, len(groups), 10)]
    res = learner.run_cases(work, parallel=14)
    outs = []
    for w in work:
        r = res[w["cid"]]
        if not r.get("ok"):
            raise RuntimeError("pipeline sequencer worker failed: %s" % r)
        outs.extend(r["outs"])
    cs, fake = [], []
    for g, o in zip(groups, outs):
        key = "one otel_to_pv run over workflows " + " | ".join("%s: %s" % (c["name"], describe(c)[:300]) for c in g)
        if "error" in o:
            chk.violation(key, "pipeline-raised:" + o["error"].split(":")[0], {"group": g, "error": o["error"]})
            continue
        if set(o["jobs"]) != {c["job"] for c in g}:
            chk.violation(key, "pipeline-jobs", {"group": g, "emitted_job_ids": sorted(o["jobs"])})
            continue
        for c in g:
            js = o["jobs"][c["job"]]
            pv = [dict(e, eventId=str(e.get("eventId", "")).split("/", 1)[-1],
                       previousEventIds=[str(p).split("/", 1)[-1] for p in e.get("previousEventIds", [])])
                  for j in js for e in j["pv"]]
            if len(js) != 1 or js[0]["name"] != c["name"]:
                chk.violation(key, "pipeline-workflow", {"case": c, "emitted_under": [j["name"] for j in js]})
                continue
            cs.append(c)
            fake.append({"pv": pv, "njobs": 1})
    n, _ = evaluate(chk, cs, fake, stats)
    return len(groups), n


def run(chk, tier, seed):
    cs = cases(tier, seed)
    outs = observe(cs, seed)
    stats = {}
    n, nts = evaluate(chk, cs, outs, stats)
    ngroups, npipe = pipeline_family(chk, tier, seed, stats)
    k = len(cs) // 2
    chk.samples = [{"case": describe(cs[k]), "emitted": outs[k].get("pv")}, {"case": describe(cs[-1])[:600]}]
    nontriv = sum(1 for c in cs if c["n"] >= 3)
    cov = {"states": stats.get("states", 0), "transitions": stats.get("generated", 0),
           "traces_validated_against_impl": n, "evaluations": n, "distinct_nontrivial": nontriv,
           "rule": "all rooted trees with <= 3 spans (grid 0..4; thorough 0..6) and 4 spans (grid 0..2; thorough 0..3), distinct "
                   "sibling starts, no touching sibling windows, x {sync, async} x prior-information / rename maps, plus seeded "
                   "trees of 2-30 spans with random maps, plus a root with 3 children in every placement of their windows on a grid 0..4 "
                   "(async, with and without prior-information groups); plus groups of 2-3 trees under different workflow names, each "
                   "with its own maps, sequenced by one run of the real otel_to_pv (maps through the configuration, spans through "
                   "the data holder); non-trivial = at least 3 spans",
           "pipeline_runs": ngroups, "pipeline_trees_validated": npipe,
           "distinct_timestamps_validated": nts, "exhaustive": False}
    return cov, ["mapped (renamed) names are fresh; renamed types do not occur in prior-information maps",
                 "no sibling's end equals another sibling's start", "one trace per call of the sequencer"]


def replay(chk, path):
    import json
    body = json.load(open(path))
    c = body["detail"]["case"]
    outs = observe([c], chk.seed)
    evaluate(chk, [c], outs, {})
    return 1 if chk.violations else 0
