"""C01 - the learned diagram accepts every job it was learned from.

B1: TLC (JobDef, generation mode) produces Jobs_k(D) for every definition D of the case list;
the real pv_to_puml_string learns D' from each presentation of each job set;
B2: TLC (JobDef, trace mode) validates every input job against D'.
B3: TypeOK / JobIsDag / SingleUse / JoinsConsistent on every generation run; termination
    of generation mode under weak fairness on the corpus and the smallest members of F."""
import learn_engine as le
import jobdef
import puml

LEVEL = "model_checking"


# beyond fragment F (the break branch is not made of plain events): a loop whose break point is itself a loop
EXTRAS = ["A;loop{B;XOR(C;loop{D};break|E)};F", "A;loop{B;XOR(loop{C};break|D)};E", "A;loop{B;XOR(C;loop{D;E};break|F);G};H"]


def case_list(tier, seed):
    if tier == "quick":
        named, ks, npres = le.corpus_defs() + le.f_defs(5) + le.triple_defs() + le.sampled_defs(200, seed, 6, 14, 400), (1, 2), 2
    else:
        named, ks, npres = le.corpus_defs() + le.f_defs(6) + le.triple_defs() + le.sampled_defs(1200, seed, 7, 18, 500), (1, 2, 3), 3
    named = named + [("X:" + t, le.parse_text(t)) for t in EXTRAS]
    seen, out = set(), []
    for n, d in named:
        if n not in seen:
            seen.add(n)
            out.append((n, d))
    return out, ks, npres


def sub_tag(rec):
    """violations on a proper subset of the job set carry their own signature (known findings about complete
    job sets do not cover them)"""
    return "" if rec.get("sub") is None else "/" + (rec.get("subkind") or "subset")


def evaluate(chk, run):
    """validate every input job of every record against its D'; report violations; return #traces"""
    emitted, traces, owner = [], [], []
    for ri, rec in enumerate(run.records):
        if rec["ast"] is None:
            continue
        emitted.append(rec["ast"])
        for ji, j in enumerate(run.rec_jobs(rec)):
            traces.append((len(emitted) - 1, j))
            owner.append((ri, ji))
    acc = jobdef.validate(emitted, traces, stats=run.stats, coverage=True)
    rejected = {}
    for n, (ri, ji) in enumerate(owner):
        if n not in acc:
            rejected.setdefault(ri, []).append(ji)
    agg = {}
    for ri, rec in enumerate(run.records):
        if rec["problem"]:
            p = rec["problem"]
            sig = "learn:" + p["kind"] + (":" + str(p["error"]).split(":")[0] if p["kind"] == "exception" else "")
            agg.setdefault((rec["name"], sig + sub_tag(rec)), []).append((ri, p))
        elif ri in rejected:
            agg.setdefault((rec["name"], "reject" + sub_tag(rec)), []).append((ri, rejected[ri]))
    for (name, sig), lst in sorted(agg.items()):
        ri, info = lst[0]
        rec = run.records[ri]
        d = run.defs[rec["di"]]
        detail = {"definition": puml.to_text(d), "k": rec["k"], "presentation": rec["present"],
                  "uuid_seed": rec["uuid_seed"], "hashseed": run.hashseed,
                  "subset_of_job_set": rec.get("sub"),
                  "jobs": [jobdef.job_json(j) for j in run.rec_jobs(rec)],
                  "emitted": rec["res"].get("text"), "variants_failing": len(lst)}
        if sig.startswith("reject"):
            j = run.rec_jobs(rec)[info[0]]
            detail["rejected_jobs"] = info
            detail["learned"] = puml.to_text(rec["ast"])
            detail["diagnosis"] = jobdef.longest_prefix(rec["ast"], j)
        else:
            detail["problem"] = info
        rej_jobs = None
        if sig.startswith("reject"):
            rej_jobs = [run.rec_jobs(run.records[r])[ji] for r, jis in lst for ji in jis]
        ctx = {"learned": [run.records[r]["ast"] for r, _x in lst if run.records[r]["ast"] is not None],
               "digests": sorted({run.subset_digest(run.records[r]) for r, _x in lst if run.records[r].get("sub") is not None})}
        detail["failing_subset_digests"] = ctx["digests"]
        chk.violation(name, sig, detail, ast=d, jobs=rej_jobs, ctx=ctx)
    return len(traces)


def run(chk, tier, seed):
    named, ks, npres = case_list(tier, seed)
    pres = [le.presentation(seed, i) for i in range(npres)]
    # every proper subset of the small job sets of the *deterministic* part of the case list (corpus + exhaustive F): the
    # known findings about them are explicit lists that hold for every seed; seeded definitions get seeded subsets only
    det = {n for n, _d in le.corpus_defs() + le.f_defs(5 if tier == "quick" else 6)}
    subsets = {"all_upto": 7, "sampled": 0, "deterministic_names": det} if tier == "quick" else \
        {"all_upto": 7, "sampled": 3, "deterministic_names": det}
    lr = le.LearnRun(named, ks, pres, seed=seed, max_jobs=400 if tier == "quick" else 500, subsets=subsets).run()
    ntr = evaluate(chk, lr)
    term = jobdef.check_termination([d for _, d in named[:120]], 2)
    lr.stats.add(term)
    ok = [r for r in lr.records if r["ast"] is not None]
    chk.samples = [lr.sample(r) for r in (ok[len(ok) // 3:len(ok) // 3 + 1] + ok[-1:])]
    cov = {"states": lr.stats.distinct, "transitions": lr.stats.generated,
           "traces_validated_against_impl": ntr,
           "evaluations": len(lr.records), "distinct_nontrivial": lr.nontrivial(),
           "rule": "definitions: corpus(63) + every member of F up to the tier's event bound (exhaustive, canonical up to "
                   "branch order/naming) + 552 systematic depth-3 members of F (every triple of nested constructs, "
                   "fragment.nesting_triples) + seeded samples of F; job sets Jobs_k(D) generated by TLC; one evaluation = "
                   "one learner run on one presentation; non-trivial = definition with >=1 fork/loop and >=2 jobs",
           "definitions": len(named), "loop_bounds": list(ks), "presentations": npres,
           "learner_runs_on_proper_subsets_of_job_sets": sum(1 for r in lr.records if r.get("sub") is not None),
           "skipped_over_job_cap": len(lr.skipped), "exhaustive": False,
           "tlc_runs": lr.stats.runs, "action_coverage": lr.stats.coverage,
           "termination_checked_on": min(120, len(named))}
    return cov, ["spec/JobDef.tla is the meaning of a diagram (DESIGN 3)", "harness lexer/parser maps lines to constructors",
                 "janus shim mirrors GraphSolution/EventSolution", "exhaustive only up to the event bound; larger members sampled"]


def replay(chk, path):
    import json
    body = json.load(open(path))
    d = body["detail"]
    named = [(body["key"], puml_from_text(d["definition"]))]
    lr = le.LearnRun(named, (d["k"],), [d["presentation"]], seed=chk.seed, hashseed=d.get("hashseed", 0))
    if d.get("subset_of_job_set") is not None:
        sub = tuple(d["subset_of_job_set"])
        lr._subsets = lambda di, k, n, first_k=True: ([sub], True)
        lr.subsets = {"all_upto": 0}
    lr.run()
    evaluate(chk, lr)
    return 1 if chk.violations else 0


def puml_from_text(t):
    return le.parse_text(t)
