"""C15 - re-running against a persisted store is repeatable.

B3: TLC explores spec/Store.tla over run histories (each run a separate process: in-memory state reset, tables kept),
    flags from {ingest, no-ingest} x {unique graphs on/off}, re-ingestion of the same stream: NoCrash, SameAnswer
    (same streamed trace contents for every trace output by two runs, same selected shape classes in all unique-graph
    runs on the ingested store), UniqueExact, StreamExact, IngestExact.
B2: run histories over one sqlite file, each run a separate (forked) process executing the real otel_to_pv with flags
    from {ingest, no-ingest} x {ug on/off} x {save events on/off} on three data sets (one whose first-run cleaning removes
    traces, one whose files contain re-delivered spans); TLC evaluates on the logged executions that every run completes, that any two runs give the same PV
    sequence for every trace both output (read from the saved files when events are saved), and that all
    unique-graph runs select the same shape classes, and that all runs without the unique-graph filter output the same
    set of traces (C15sameset: the files are the same in every ingesting run); conformance to Store.tla is checked as well."""
import store
import storegen
from checks import storecheck as sc

LEVEL = "model_checking"
CLAUSES = {"C15completes", "C15same", "C15classes", "C15all", "C15sameset"}
FLAGS = ((1, 0), (1, 1), (0, 0), (0, 1))


def b3_configs(tier):
    u = store.universe_runs()
    if tier == "quick":
        return [("histories-3-runs-len2", dict(spans=u, maxlen=2, batches=(1, 2, 5), buffers=(0, 1), maxruns=3,
                                               clean_on=True, same_files=True, runflags=FLAGS, invs=store.INVS_ALL,
                                               props=store.PROPS_RUNS)),
                ("histories-2-runs-len3", dict(spans=u, maxlen=3, batches=(1, 2, 5), buffers=(0, 1), maxruns=2,
                                               clean_on=True, same_files=True, runflags=FLAGS, invs=store.INVS_ALL,
                                               props=store.PROPS_RUNS))]
    return [("histories-4-runs-len2", dict(spans=u, maxlen=2, batches=(1, 2, 5), buffers=(0, 1), maxruns=4,
                                           clean_on=True, same_files=True, runflags=FLAGS, invs=store.INVS_ALL,
                                           props=store.PROPS_RUNS, timeout=3000)),
            ("histories-3-runs-len3", dict(spans=u, maxlen=3, batches=(1, 2, 5), buffers=(0, 1), maxruns=3,
                                           clean_on=True, same_files=True, runflags=FLAGS, invs=store.INVS_ALL,
                                           props=store.PROPS_RUNS, timeout=3000)),
            # beyond what finishes exhaustively: random behaviours of longer histories over the whole span universe
            ("simulate-6-runs-len7", dict(spans=u, maxlen=7, batches=(1, 2, 3, 5, 9), buffers=(0, 1, 2), maxruns=6,
                                          clean_on=True, same_files=True, runflags=FLAGS, invs=store.INVS_ALL,
                                          simulate="num=30000", depth=200, workers=8, timeout=3000))]


from storecli import cli_family  # noqa: E402


def run(chk, tier, seed):
    m = sc.b3(chk, b3_configs(tier))
    scns = storegen.c15_scenarios(tier, seed)
    st = {}
    n, ndrift = sc.run_and_validate(chk, scns, CLAUSES, stats=st)
    ncli, ncliruns = cli_family(chk, tier, seed, st, {"C15completes", "C15same", "C15all", "C15sameset"}, "c15cli")
    nontriv = sum(1 for s in scns if len(s["runs"]) >= 2)
    cov = {"states": m["states"] + st.get("conf_states", 0) + st.get("obs_states", 0),
           "transitions": m["transitions"] + st.get("conf_generated", 0) + st.get("obs_generated", 0),
           "traces_validated_against_impl": n, "evaluations": n, "distinct_nontrivial": nontriv,
           "rule": "all histories of 1-2 runs (thorough: 1-4) over flags {ingest,no-ingest} x {ug} x {save events} that "
                   "ingest at least once, plus seeded histories of 3-4 runs, on four data sets (same shapes / cleaning removes traces / "
                   "re-delivered spans in the files / time buffer 2 with survivors near the edge of the surviving data); every run is a separate "
                   "process on one sqlite file; non-trivial = history of at least two runs",
           "process_runs": sum(len(s["runs"]) for s in scns),
           "cli_histories": ncli, "cli_process_runs": ncliruns,
           "model_runs": m["runs"], "model_drift_executions": ndrift, "conformance_action_counts": st.get("actions", {}),
           "exhaustive": False}
    return cov, ["most runs are forked processes executing tel2puml.otel_to_pv.otel_to_pv; a small family goes through the real "
                 "command line (python -m tel2puml otel2pv [-ni] [-ug] -se) on JSON files",
                 "re-ingestion feeds the same stream again"]


def replay(chk, path):
    return sc.replay(chk, path, CLAUSES)
