"""C06 - gate inference explains all observed successor sets; exact without mixed OR.

spec/Gates.tla is the denotation Out(tree) of AND/OR/XOR gate trees.  Every gate tree over up to 5 (thorough: 6)
distinct events, depth <= 3, operators alternating, every gate with >= 2 children is a configuration; TLC computes
its outcome family and whether it lies in the exactness sub-class (run 1).  The real calculate_logic_gates is called
on every family (also under a seeded relabelling of the events, to expose dependence on name order) and the returned
pm4py tree is projected to a Gates literal.  TLC (run 2) decides soundness Out(tree) <= Out(inferred) for all and
exactness Out(inferred) = Out(tree) on the sub-class."""
import random

import gates
import learner

LEVEL = "model_checking"


def to_tuple(x):
    return (x[0], x[1]) if x[0] == "leaf" else (x[0], [to_tuple(k) for k in x[1]])


def run(chk, tier, seed):
    trees = gates.all_trees(5 if tier == "quick" else 6)
    stats = {}
    fam = gates.families(trees, stats)
    rnd = random.Random(repr(("c06", seed)))
    names = ["e%d" % k for k in range(1, 7)]
    alt = ["zeta", "Beta", "alpha", "m_10", "m_9", "Omega"]
    variants = []          # (tree index, relabelled tree, family)
    for i, t in enumerate(trees):
        variants.append((i, t, fam[i][0]))
        if tier == "thorough" or i % 3 == seed % 3:
            perm = alt[:]
            rnd.shuffle(perm)
            m = dict(zip(names, perm))
            variants.append((i, gates.relabel(t, m), [sorted(m[e] for e in s) for s in fam[i][0]]))
    chunk = 150
    # the plain naming is also run under other interpreter hash seeds (separate processes): set iteration order must
    # not decide which tree is inferred
    seeds = (0, 5, 9) if tier == "quick" else (0, 3, 5, 7, 9)
    plain = [v for v in variants if v[1] is trees[v[0]]]
    for hs in seeds[1:]:
        variants.extend((i, t, f, hs) for i, t, f in plain)
    variants = [v if len(v) == 4 else v + (0,) for v in variants]
    groups = {}
    order = []
    for hs in seeds:
        vs = [k for k, v in enumerate(variants) if v[3] == hs]
        for c in range(0, len(vs), chunk):
            cid = "g%d_%d" % (hs, c)
            groups.setdefault(hs, []).append({"cid": cid, "op": "gates", "families": [variants[k][2] for k in vs[c:c + chunk]],
                                              "uuid_seed": seed + c, "timeout": 1800})
            order.append((cid, vs[c:c + chunk]))
    res = learner.run_cases_multi(groups, parallel=15)
    outs = [None] * len(variants)
    for cid, ks in order:
        r = res[cid]
        if not r.get("ok"):
            raise RuntimeError("gates worker failed: %s" % r)
        for k, o in zip(ks, r["outs"]):
            outs[k] = o
    variants = [v[:3] for v in variants]
    pairs, pidx = [], []
    for vi, ((i, t, f), o) in enumerate(zip(variants, outs)):
        if "error" in o:
            chk.violation(gates.tree_text(t), "raised:" + o["error"].split(":")[0], {"tree": gates.tree_text(t), "family": f,
                                                                                   "error": o["error"]})
            continue
        pairs.append((t, to_tuple(o["tree"])))
        pidx.append(vi)
    verdicts = gates.judge(pairs, stats)
    nexact = 0
    for (t, inf), vi, v in zip(pairs, pidx, verdicts):
        f = variants[vi][2]
        detail = {"tree": gates.tree_text(t), "family": f, "inferred": gates.tree_text(inf), "verdict": v}
        if not v["wf"]:
            chk.violation(gates.tree_text(t), "unsupported-node", detail)
        elif not v["sound"]:
            chk.violation(gates.tree_text(t), "unsound", detail)
        elif v["exactable"]:
            nexact += 1
            if not v["exact"]:
                chk.violation(gates.tree_text(t), "inexact", detail)
    k = len(pairs) // 2
    chk.samples = [{"tree": gates.tree_text(pairs[k][0]), "family": variants[pidx[k]][2],
                    "inferred": gates.tree_text(pairs[k][1]), "verdict": verdicts[k]}]
    cov = {"states": stats.get("states", 0), "transitions": stats.get("generated", 0),
           "traces_validated_against_impl": len(pairs), "evaluations": len(variants),
           "distinct_nontrivial": sum(1 for t in trees if t[0] != "leaf" and any(k[0] != "leaf" for k in t[1])),
           "rule": "every gate tree over <= %d distinct events, depth <= 3, alternating operators, gates with >= 2 children "
                   "(canonical child order), each with its full outcome family; a third of them (thorough: all) also under a "
                   "seeded relabelling, and all of them under further interpreter hash seeds; non-trivial = tree with a nested gate" % (5 if tier == "quick" else 6),
           "trees": len(trees), "in_exactness_subclass": nexact, "exhaustive": True,
           "explanation": "TLC is the oracle of the transcribed denotation; the explored space is the family of trees"}
    return cov, ["pm4py tree projected to a Gates literal (X/+/O/leaf; anything else is an unsupported node)",
                 "families contain no repeated event types (branch counts are outside this property)"]


def replay(chk, path):
    import json
    print(json.dumps(json.load(open(path))["detail"], indent=1)[:3000])
    return run(chk, "quick", chk.seed) and (1 if chk.violations else 0)
