"""C02 - the learned diagram admits nothing beyond a complete sample.

The input of every case is the complete job set Jobs_2(D) (TLC, generation mode).  The real learner
emits D'.  TLC generates Jobs_2(D') (exhaustively below the cap, `-simulate` sample above it) and
TLC (trace mode, loops unbounded) validates each of those jobs against the *source* D:
language inclusion Jobs_2(D') <= L(D).  A reachable `err` in JobDef(D') (break crossing an AND/OR
join, break outside a loop) is a violation in its own right."""
import learn_engine as le
import jobdef
import puml
import tlc

LEVEL = "model_checking"


def case_list(tier, seed):
    from checks import c01
    return c01.case_list(tier, seed)[0]


def simulate_jobs(d, K, n, seed, stats):
    """seeded sample of Jobs_K(d) drawn by TLC -simulate (used above the size cap)"""
    r = tlc.run_tlc("JobDef", jobdef.GEN_CFG, jobdef._data([d], [], K), modules=jobdef.MODULES, workers=1,
                    simulate="num=%d" % n, depth=2000, seed=seed, allow_violation=False, timeout=600)
    stats.add(r)
    out = {}
    for _t, _di, job in tlc.extract(r.out, "JOB"):
        j = sorted(((e["id"], e["ty"], frozenset(e["pv"])) for e in job), key=lambda e: e[0])
        out.setdefault(jobdef.canon(j), j)
    return list(out.values()), bool(tlc.extract(r.out, "ERR"))


def evaluate(chk, run, cap, seed):
    recs = [(ri, r) for ri, r in enumerate(run.records) if r["ast"] is not None]
    small = [(ri, r) for ri, r in recs if puml.njobs_estimate(r["ast"], 2) <= cap]
    big = [(ri, r) for ri, r in recs if puml.njobs_estimate(r["ast"], 2) > cap]
    # identical learned definitions need to be expanded only once
    uniq = {}
    for ri, r in small:
        uniq.setdefault(puml.to_text(r["ast"]), r["ast"])
    keys = list(uniq)
    ejobs, eerrs = jobdef.gen_jobs([uniq[k] for k in keys], 2, stats=run.stats, coverage=True)
    expand = {k: (ejobs[i], eerrs[i], False) for i, k in enumerate(keys)}
    for ri, r in big:
        k = puml.to_text(r["ast"])
        if k not in expand:
            js, er = simulate_jobs(r["ast"], 2, cap, seed + ri, run.stats)
            expand[k] = (js, er, True)
    traces, owner = [], []
    for ri, r in recs:
        js, _er, _s = expand[puml.to_text(r["ast"])]
        src_canon = {jobdef.canon(j) for j in run.jobs[2][r["di"]]}
        for ji, j in enumerate(js):
            if jobdef.canon(j) in src_canon:
                continue          # literally one of the input jobs (already a member of L(D) by construction)
            traces.append((r["di"], j))
            owner.append((ri, ji))
    acc = jobdef.validate(run.defs, traces, stats=run.stats, coverage=True)
    extra = {}
    for n, (ri, ji) in enumerate(owner):
        if n not in acc:
            extra.setdefault(ri, []).append(ji)
    agg = {}
    sampled = 0
    for ri, r in enumerate(run.records):
        if r["problem"]:
            p = r["problem"]
            sig = "learn:" + p["kind"] + (":" + str(p["error"]).split(":")[0] if p["kind"] == "exception" else "")
            agg.setdefault((r["name"], sig), []).append((ri, p))
            continue
        js, er, smp = expand[puml.to_text(r["ast"])]
        sampled += smp
        if er:
            agg.setdefault((r["name"], "illformed"), []).append((ri, "break crosses an AND/OR join or lies outside a loop"))
        if ri in extra:
            agg.setdefault((r["name"], "extra"), []).append((ri, extra[ri]))
    for (name, sig), lst in sorted(agg.items()):
        ri, info = lst[0]
        r = run.records[ri]
        d = run.defs[r["di"]]
        detail = {"definition": puml.to_text(d), "k": 2, "presentation": r["present"], "uuid_seed": r["uuid_seed"],
                  "hashseed": run.hashseed, "emitted": r["res"].get("text"), "variants_failing": len(lst),
                  "learned": puml.to_text(r["ast"]) if r["ast"] else None}
        if sig == "extra":
            js = expand[puml.to_text(r["ast"])][0]
            detail["extra_jobs_count"] = len(info)
            detail["extra_job_example"] = jobdef.job_json(js[info[0]])
            detail["diagnosis_against_source"] = jobdef.longest_prefix(d, js[info[0]])
        else:
            detail["problem"] = info
        chk.violation(name, sig, detail, ast=d)
    return len(traces), sampled


def run(chk, tier, seed):
    named = case_list(tier, seed)
    npres = 2 if tier == "quick" else 3
    cap = 3000 if tier == "quick" else 8000
    pres = [le.presentation(seed, i) for i in range(npres)]
    lr = le.LearnRun(named, (2,), pres, seed=seed, max_jobs=400 if tier == "quick" else 500).run()
    ntr, sampled = evaluate(chk, lr, cap, seed)
    ok = [r for r in lr.records if r["ast"] is not None]
    chk.samples = [lr.sample(r) for r in (ok[len(ok) // 2:len(ok) // 2 + 1] + ok[-1:])]
    cov = {"states": lr.stats.distinct, "transitions": lr.stats.generated, "traces_validated_against_impl": ntr,
           "evaluations": len(lr.records), "distinct_nontrivial": lr.nontrivial(),
           "rule": "same definitions as C01 with k=2 (complete job set); one evaluation = one learner run; every job of "
                   "Jobs_2(D') that is not literally an input job is validated against the source D by TLC; "
                   "non-trivial = definition with >=1 fork/loop and >=2 jobs",
           "definitions": len(named), "presentations": npres, "job_cap": cap, "learned_definitions_sampled": sampled,
           "skipped_over_job_cap": len(lr.skipped), "exhaustive": False, "tlc_runs": lr.stats.runs,
           "action_coverage": lr.stats.coverage}
    return cov, ["language comparison at loop bound 2 (the bound in the property text)",
                 "above the size cap Jobs_2(D') is a TLC -simulate sample", "spec/JobDef.tla is the meaning of a diagram"]


def replay(chk, path):
    import json
    body = json.load(open(path))
    d = body["detail"]
    named = [(body["key"], le.parse_text(d["definition"]))]
    lr = le.LearnRun(named, (2,), [d["presentation"]], seed=chk.seed, hashseed=d.get("hashseed", 0)).run()
    evaluate(chk, lr, 3000, chk.seed)
    return 1 if chk.violations else 0
