"""C12 - every stored trace is streamed once, whole, under one workflow name.

B3: TLC explores spec/Store.tla: StreamExact (the streamed (name, trace) groups are a partition of the filtered store,
    every group holds all spans of its trace with the children recorded by the spans' parent column).
B2: stores with several workflow names and interleaved ingestion x batch sizes, without and with the unique-graph
    filter, are run through the real otel_to_pv; the harness consumes the nested generators the way the pipeline does
    and logs the sequence of (name, trace, spans with children); TLC evaluates StreamOnceP / StreamExactP and that
    every streamed trace reaches the PV output whole (C12pv), and checks conformance.  A further family uses one
    data-holder object directly in phases (ingest, stream_data, ingest more, stream_data again): every stream must be
    exact for the store it reads (Store.tla actions StreamDirect / Reenter)."""
import store
import storegen
from checks import storecheck as sc

LEVEL = "model_checking"
CLAUSES = {"C12once", "C12exact", "C12pv", "C12completes"}
FLAGS = ((1, 0), (1, 1), (0, 0), (0, 1))


def b3_configs(tier):
    u = store.universe_runs()
    if tier == "quick":
        return [("stream-runs-len3", dict(spans=u, maxlen=3, batches=(1, 2, 5), buffers=(0, 1), maxruns=2, clean_on=True,
                                          same_files=True, runflags=FLAGS, invs=store.INVS_ALL))]
    return [("stream-runs-len4", dict(spans=u, maxlen=4, batches=(1, 2, 3, 5), buffers=(0, 1), maxruns=2,
                                      clean_on=True, same_files=True, runflags=FLAGS, invs=store.INVS_ALL, timeout=3000))]


def run(chk, tier, seed):
    m = sc.b3(chk, b3_configs(tier))
    k = 80 if tier == "quick" else 800
    scns = storegen.forest_scenarios(k, seed, ug=False, tag="c12a", maxtrees=6) + \
        storegen.forest_scenarios(k, seed, ug=True, tag="c12b", maxtrees=6) + storegen.small_forests_exhaustive(2) + \
        storegen.filter_scenarios(k, seed) + storegen.reuse_scenarios(k, seed)
    st = {}
    n, ndrift = sc.run_and_validate(chk, scns, CLAUSES, stats=st)
    nontriv = sum(1 for s in scns if len({x["job"] for x in s["runs"][0]["spans"]}) >= 2)
    cov = {"states": m["states"] + st.get("conf_states", 0) + st.get("obs_states", 0),
           "transitions": m["transitions"] + st.get("conf_generated", 0) + st.get("obs_generated", 0),
           "traces_validated_against_impl": n, "evaluations": n, "distinct_nontrivial": nontriv,
           "rule": "seeded forests of 1-6 traces over two workflow names (spans of a trace may carry another name before "
                   "cleaning), ingested trace by trace / interleaved / in any order / children first, batch sizes {1..7,50}, without and with the unique-graph filter, and with arbitrary name -> trace-id "
                   "filters (true pairs, traces listed under another workflow's name, unknown ids); one data-holder object used in "
                   "2-3 phases (ingest, stream, ingest more - new traces, late children, late parents - and stream again); "
                   "non-trivial = store with at least two traces",
           "model_runs": m["runs"], "model_drift_executions": ndrift, "conformance_action_counts": st.get("actions", {}),
           "exhaustive": False}
    return cov, ["one root span per trace; no span has its parent in another trace"]


def replay(chk, path):
    return sc.replay(chk, path, CLAUSES)
