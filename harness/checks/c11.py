"""C11 - cleaning removes exactly the broken or out-of-window traces.

B3: TLC explores spec/Store.tla (runs with cleaning) and checks the action properties CleanInconsistentExact,
    CleanWindowExact, CleanNamesExact (the declarative clauses of the statement against the implementation-shaped
    actions, which find dangling parents through the association table) and CleanAssocFrame.
B2: stores mixing complete traces, traces with a dangling parent (direct / deep), traces before / after / straddling
    the window, traces whose spans carry other workflow names, traces with two of these anomalies at once, x time buffers x batch sizes are run through the real
    otel_to_pv; the tables are read back after each of the three cleaning calls; TLC evaluates the C11 clauses on the
    observed tables and checks conformance to Store.tla.  Frame condition through the pipeline: every scenario in which
    traces were removed is run again without those traces (its twin) and TLC compares the PV sequences of the traces
    output by both."""
import store
import storegen
from checks import storecheck as sc

LEVEL = "model_checking"
CLAUSES = {"C11incons", "C11window", "C11names", "C11frame", "C11twin", "C11after"}
FLAGS = ((1, 0), (0, 0))


def b3_configs(tier):
    u = store.universe_runs()
    if tier == "quick":
        return [("runs-len3", dict(spans=u, maxlen=3, batches=(1, 2, 5), buffers=(0, 1, 2), maxruns=2, clean_on=True,
                                   runflags=FLAGS, invs=store.INVS_INGEST, props=store.PROPS_CLEAN))]
    return [("runs-len4", dict(spans=u, maxlen=4, batches=(1, 2, 3, 5), buffers=(0, 1, 2), maxruns=2, clean_on=True,
                               runflags=FLAGS, invs=store.INVS_INGEST, props=store.PROPS_CLEAN, timeout=3000))]


def run(chk, tier, seed):
    m = sc.b3(chk, b3_configs(tier))
    scns = storegen.c11_scenarios(tier, seed)
    st = {}
    n, ndrift = sc.run_and_validate(chk, scns, CLAUSES, twins_fn=storegen.twin_of, stats=st)
    nontriv = sum(1 for s in scns if len(s["combo"]) >= 2)
    cov = {"states": m["states"] + st.get("conf_states", 0) + st.get("obs_states", 0),
           "transitions": m["transitions"] + st.get("conf_generated", 0) + st.get("obs_generated", 0),
           "traces_validated_against_impl": n, "evaluations": n, "distinct_nontrivial": nontriv,
           "rule": "every combination of 1..k of 12 trace templates (complete, dangling, deep dangling, early, late, "
                   "straddling without/with a span inside, window edge, inconsistent names, and three with two anomalies in one "
                   "trace: dangling + inconsistent names, outside + inconsistent names, outside + dangling; quick: these three "
                   "alone and in pairs) x time buffers {0,1,2} x batch "
                   "sizes, spans interleaved by a seeded shuffle; twins = the same scenario without the removed traces; "
                   "non-trivial = at least two traces in the store",
           "model_runs": m["runs"], "model_drift_executions": ndrift, "conformance_action_counts": st.get("actions", {}),
           "exhaustive": False}
    return cov, ["no span has its parent in another trace", "one root span per trace", "timestamps on a one-minute grid shifted by 0, 200 or 77 ns (so that they are not exactly representable as doubles)",
                 "PV sequences of twins are compared on the traces output by both runs (removing a trace may move the "
                 "data window)"]


def replay(chk, path):
    return sc.replay(chk, path, CLAUSES, twins_fn=storegen.twin_of)
