"""C07 - loop extraction leaves an acyclic, complete, non-overlapping nesting.

The event graph is built exactly as pv_to_puml_string does (ingestion with the dummy start event, deep copy,
create_graph_from_events) for every corpus / fragment-F case that contains a loop; the real detect_loops is called and
the returned nesting (nodes, edges, loop bodies with their start / end / break ids, recursively) is logged.
B3: spec/LoopExtract.tla, the abstract extraction machine, is model-checked on every rooted digraph with 3
nodes and every order of extraction (termination; the four invariants on the final nesting).
B2: TLC (spec/LoopNest.tla) evaluates on each observed nesting: every graph of the nesting is acyclic with a single entry,
each input event type occurs exactly once across the nesting and nothing is invented, every edge of the input that lies
on a cycle has both ends inside one loop body."""
import jobdef
import learn_engine as le
import learner
import puml
import tlc

LEVEL = "model_checking"


def has_loop(d):
    return any(it[0] == "loop" for it in le._items(d))


# beyond fragment F: "bunched" shapes as in the corpus (a fork as the first item of an XOR branch) combined with loops
# and breaks, so that one event has both a break edge and a fork that stays in the loop
EXTRAS = ["A;loop{B;XOR(X;break|AND(C|D);E)};F", "A;loop{B;XOR(X;break|OR(C|D);E)};F", "A;loop{B;XOR(AND(C|D);E|G)};F",
          "A;loop{B;XOR(X;Y;break|AND(C|D);E)};F", "A;loop{B;XOR(X;break|AND(C|D))};F", "A;loop{XOR(B|C);D};E",
          "A;loop{AND(B|C);D};E", "A;loop{B;loop{C;XOR(X;break|AND(D|E);G)};H};I"]


def case_list(tier, seed):
    if tier == "quick":
        named = le.corpus_defs() + le.f_defs(5) + le.triple_defs() + le.sampled_defs(250, seed, 6, 14, 300)
    else:
        named = le.corpus_defs() + le.f_defs(6) + le.triple_defs() + le.sampled_defs(1500, seed, 7, 18, 500)
    named = named + [("X:" + t, le.parse_text(t)) for t in EXTRAS]
    seen, out = set(), []
    for n, d in named:
        if n not in seen and has_loop(d):
            seen.add(n)
            out.append((n, d))
    return out


def nest_tla(g):
    nodes = ", ".join('[id |-> "%s", ty |-> "%s", kind |-> "%s"]' % (n["id"], n["ty"], n["kind"]) for n in g["nodes"])
    edges = ", ".join('<<"%s", "%s">>' % (a, b) for a, b in g["edges"])
    subs = ", ".join('[loop |-> "%s", start |-> "%s", end |-> "%s", breaks |-> {%s}, g |-> %s]' % (
        s["loop"], s["start"], s["end"], ", ".join('"%s"' % b for b in s["breaks"]), nest_tla(s["g"])) for s in g["subs"])
    return "[nodes |-> {%s}, edges |-> {%s}, subs |-> {%s}]" % (nodes, edges, subs)


def obs_tla(o):
    return "[input |-> [types |-> {%s}, edges |-> {%s}], nest |-> %s]" % (
        ", ".join('"%s"' % t for t in o["input"]["types"]),
        ", ".join('<<"%s", "%s">>' % (a, b) for a, b in o["input"]["edges"]), nest_tla(o["nest"]))


def validate(obs, stats):
    idx = list(range(len(obs)))
    nsh = max(1, (len(obs) + 299) // 300)
    shards = [idx[i::nsh] for i in range(nsh)]
    runs = [dict(main="LoopNest", cfg="INIT Init\nNEXT Next\nINVARIANT Report\n",
                 data={"LoopData": tlc.data_module("LoopData", {"Obs": "<<\n " + ",\n ".join(obs_tla(obs[i]) for i in s) + "\n>>"},
                                                   extends="Naturals, Sequences")},
                 modules=["LoopNest"], workers=1, allow_violation=False, timeout=1800) for s in shards]
    out = [None] * len(obs)
    for s, r in zip(shards, tlc.run_many(runs, 10)):
        stats["states"] = stats.get("states", 0) + r.distinct
        stats["generated"] = stats.get("generated", 0) + r.generated
        for v in tlc.extract(r.out, "V"):
            out[s[v[1] - 1]] = "+".join(sorted(v[2])) if v[2] else "ok"
    if any(v is None for v in out):
        raise tlc.TLCError("LoopNest did not judge every nesting")
    return out


def run_cases(chk, named, ks, seed, npres, stats):
    defs = [d for _, d in named]
    cases, owner = [], []
    js = jobdef.Stats()
    for k in ks:
        jobs, _ = jobdef.gen_jobs(defs, k, stats=js)
        for di, (name, d) in enumerate(named):
            if len(jobs[di]) > 500:
                continue
            for pi in range(npres):
                cases.append({"cid": "%d.%d.%d" % (di, k, pi), "op": "loops", "jobs": [jobdef.job_json(j) for j in jobs[di]],
                              "present": le.presentation(seed, pi), "uuid_seed": seed + pi, "timeout": 120})
                owner.append((di, k, pi))
    stats["states"] = js.distinct
    stats["generated"] = js.generated
    res = learner.run_cases(cases)
    obs, oidx = [], []
    for c, (di, k, pi) in zip(cases, owner):
        r = res[c["cid"]]
        if not r.get("ok"):
            chk.violation(named[di][0], "detect_loops:" + r.get("kind", "exception") + ":" + str(r.get("error")).split(":")[0],
                          {"definition": puml.to_text(named[di][1]), "k": k, "presentation": c["present"], "problem": r},
                          ast=named[di][1])
            continue
        obs.append({"input": r["input"], "nest": r["nest"]})
        oidx.append((di, k, pi))
    verdicts = validate(obs, stats)
    agg = {}
    for (di, k, pi), v, o in zip(oidx, verdicts, obs):
        if v != "ok":
            agg.setdefault((di, v), []).append((k, pi, o))
    for (di, v), lst in sorted(agg.items()):
        k, pi, o = lst[0]
        chk.violation(named[di][0], v, {"definition": puml.to_text(named[di][1]), "k": k, "presentation_index": pi,
                                        "input_graph": o["input"], "nesting": o["nest"], "variants_failing": len(lst)},
                      ast=named[di][1])
    if obs:
        chk.samples = [{"definition": puml.to_text(named[oidx[len(obs) // 2][0]][1]), "input_graph": obs[len(obs) // 2]["input"],
                        "nesting": obs[len(obs) // 2]["nest"], "verdict": verdicts[len(obs) // 2]}]
    return len(cases), len(obs)


def b3(chk, tier, stats):
    """design-level: the abstract extraction machine (spec/LoopExtract.tla) on every rooted digraph with N nodes, every
    order of extraction: terminates, and the final nesting satisfies the invariants"""
    n = 3            # N = 4 (38 912 input graphs) does not finish within 50 minutes with these recursive operators
    cfg = "SPECIFICATION Spec\nCONSTANT N = %d\nINVARIANT AllAcyclicSingleEntry\nINVARIANT Partition\nINVARIANT CyclesInside\n" \
          "INVARIANT BoundedLoops\n" % n + ("PROPERTY Terminates\n" if n == 3 else "")
    r = tlc.run_tlc("LoopExtract", cfg, None, modules=["LoopExtract"], workers=8, jvm="throughput", timeout=3000, heap="6g")
    stats["states"] = stats.get("states", 0) + r.distinct
    stats["generated"] = stats.get("generated", 0) + r.generated
    for v in r.violated:
        chk.violation("model:LoopExtract N=%d" % n, "model-invariant:" + v, {"tlc_tail": r.out[-5000:]})
    out = {"N": n, "distinct": r.distinct, "generated": r.generated, "violated": r.violated, "liveness_checked": n == 3}
    if tier == "thorough":
        # beyond what finishes exhaustively: random behaviours of the machine on the 38 912 rooted digraphs with 4 nodes
        cfg4 = "SPECIFICATION Spec\nCONSTANT N = 4\nINVARIANT AllAcyclicSingleEntry\nINVARIANT Partition\nINVARIANT CyclesInside\n" \
               "INVARIANT BoundedLoops\n"
        r4 = tlc.run_tlc("LoopExtract", cfg4, None, modules=["LoopExtract"], workers=8, jvm="throughput", timeout=3000, heap="6g",
                         simulate="num=2000", depth=12)
        stats["states"] = stats.get("states", 0) + r4.distinct
        stats["generated"] = stats.get("generated", 0) + r4.generated
        for v in r4.violated:
            chk.violation("model:LoopExtract N=4 (simulation)", "model-invariant:" + v, {"tlc_tail": r4.out[-5000:]})
        out["simulation_N4"] = {"behaviours": 2000, "states_visited": r4.generated, "violated": r4.violated}
    return out


def run(chk, tier, seed):
    named = case_list(tier, seed)
    stats = {}
    model = b3(chk, tier, stats)
    ncases, nobs = run_cases(chk, named, (1, 2), seed, 2 if tier == "quick" else 3, stats)
    nested = sum(1 for _, d in named if any(it[0] == "loop" and any(x[0] == "loop" for x in le._items(it[1])) for it in le._items(d)))
    cov = {"states": stats.get("states", 0), "transitions": stats.get("generated", 0),
           "traces_validated_against_impl": nobs, "evaluations": ncases, "distinct_nontrivial": nested,
           "rule": "corpus + F (exhaustive up to the tier's bound) + seeded samples, restricted to definitions with a loop, plus 8 hand-written 'bunched' loop shapes beyond F; job "
                   "sets Jobs_1 and Jobs_2 generated by TLC, two (thorough: three) presentations each; non-trivial = "
                   "definition with a loop nested in a loop",
           "definitions_with_loops": len(named), "abstract_machine": model, "exhaustive": False}
    return cov, ["node kinds are read from the object's class (LoopEvent) and the dummy event type names",
                 "the input graph is the one create_graph_from_events builds from the ingested events"]


def replay(chk, path):
    import json
    body = json.load(open(path))
    d = le.parse_text(body["detail"]["definition"])
    run_cases(chk, [(body["key"], d)], (body["detail"].get("k", 2),), chk.seed, 2, {})
    return 1 if chk.violations else 0
