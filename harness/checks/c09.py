"""C09 - unique-graph selection keeps one trace per distinct call-tree shape.

B3: TLC explores spec/Store.tla with unique-graph runs: UniqueExact (the selection is a transversal of the
    (workflow name, shape) classes of the stored traces), for every batch size / page placement.
B2: all multisets of one or two call trees with at most 3 (thorough: 4) spans over two span types, under equal and
    different workflow names, and seeded larger forests (repeated shapes, shuffled sibling order, interleaved
    ingestion, two presentations of the same data with different order and batch size) are run through the real
    otel_to_pv with find_unique_graphs; TLC evaluates UniqueExactP on the observed tables (shapes are computed by the
    TLA+ operator Shape from the stored spans, not from the code's digest) and checks conformance."""
import store
import storegen
from checks import storecheck as sc

LEVEL = "model_checking"
CLAUSES = {"C09exact"}
FLAGS = ((1, 1), (0, 1), (1, 0))


def b3_configs(tier):
    u = store.universe_runs()
    if tier == "quick":
        return [("ug-runs-len3", dict(spans=u, maxlen=3, batches=(1, 2, 5), buffers=(0, 1), maxruns=2, clean_on=True,
                                      same_files=True, runflags=FLAGS, invs=store.INVS_ALL))]
    return [("ug-runs-len4", dict(spans=u, maxlen=4, batches=(1, 2, 3, 5), buffers=(0, 1), maxruns=2, clean_on=True,
                                  same_files=True, runflags=FLAGS, invs=store.INVS_ALL, timeout=3000))]


def run(chk, tier, seed):
    m = sc.b3(chk, b3_configs(tier))
    if tier == "quick":
        scns = storegen.small_forests_exhaustive(3) + storegen.forest_scenarios(80, seed)
    else:
        scns = storegen.small_forests_exhaustive(4, batches=(1, 2, 3, storegen.BIG)) + \
            storegen.forest_scenarios(800, seed, maxnodes=5, maxtrees=6)
    scns = scns + storegen.c09_window_scenarios(tier, seed) + storegen.sibling_confusion_scenarios()
    st = {}
    n, ndrift = sc.run_and_validate(chk, scns, CLAUSES, stats=st)
    from storecli import cli_family
    ncli, ncliruns = cli_family(chk, tier, seed, st, CLAUSES, "c09cli")
    nontriv = sum(1 for s in scns if len({x["job"] for x in s["runs"][0]["spans"]}) >= 2)
    cov = {"states": m["states"] + st.get("conf_states", 0) + st.get("obs_states", 0),
           "transitions": m["transitions"] + st.get("conf_generated", 0) + st.get("obs_generated", 0),
           "traces_validated_against_impl": n, "evaluations": n, "distinct_nontrivial": nontriv,
           "rule": "all pairs of call-tree shapes up to the tier's size (same / different workflow name) x batch sizes, "
                   "plus seeded forests of 1-5 traces with repeated shapes, each in four presentations (order of ingestion, batch size); plus stores with time buffer 1-2 holding traces "
                   "before / after / straddling the buffered window next to same-shaped traces inside it; plus stores in which siblings of "
                   "one span type carry different sub-trees (the shape in both sibling orders next to the shapes it must not be "
                   "confused with); non-trivial = store "
                   "with at least two traces",
           "cli_histories": ncli, "cli_process_runs": ncliruns, "model_runs": m["runs"], "model_drift_executions": ndrift, "conformance_action_counts": st.get("actions", {}),
           "exhaustive": False}
    return cov, ["xxh64 collisions and event types ending in 16 hex digits are outside the generated inputs",
                 "one root span per trace; no span has its parent in another trace"]


def replay(chk, path):
    return sc.replay(chk, path, CLAUSES)
