"""C16 - PV timestamps and OTel nanosecond times convert consistently.

spec/PvTime.tla is the exact calendar arithmetic (TLC integers are 32 bit: instants are limb records).
B3: TLC checks the specification's own consistency on the boundary grid (the two conversions are mutually inverse,
    strictly monotone, consecutive day numbers are consecutive dates).
B2: the real unix_nano_to_pv_string / convert_timestamp_to_unix_nano are called (in a child process on /repo's tree)
    on the whole boundary grid and on seeded microsecond-precision instants in 1970..2100; every observed
    (argument, result) pair, every PV -> ns -> PV round trip and every ordered pair is validated by TLC against
    the operators NsToPv / PvToNs / PvLess.  Nanosecond-precision instants (every grid instant with the sub-microsecond
    parts 1, 499, 500, 501, 999 ns, random ones, random ones in the last microsecond of a second) must be converted to
    the truncated or the next microsecond (NsToPv / NsToPvUp, carry into second and day checked by CarryOk), and pairs
    of them 1 ns, 500 ns and 1000 ns apart must never come out in reversed order.  The conversions are repeated in
    processes whose local time zone (TZ) is a daylight-saving zone of either hemisphere or a half-hour offset, on every
    hour of the days on which daylight saving starts or ends somewhere: the results must be the same UTC strings."""
import datetime
import random
import re

import learner
import tlc

LEVEL = "model_checking"
GRID_DAYS = [0, 1, 30, 31, 58, 59, 89, 364, 365, 366, 424, 425, 730, 789, 790, 1095, 1096, 10956, 10957, 11015, 11016,
             11017, 11322, 24855, 24856, 47481, 47482, 47540, 47541, 47542, 47846, 47847]
GRID_SECS = [0, 1, 59, 60, 3599, 3600, 43199, 43200, 86399]
GRID_US = [0, 1, 499999, 500000, 999999]
GRID_NS = [1, 499, 500, 501, 999]
PV_RE = re.compile(r"^(\d{4})-(\d{2})-(\d{2})T(\d{2}):(\d{2}):(\d{2})\.(\d{6})Z$")
MAX_DAY = 47846      # 2100-12-31


def split(ns):
    d, r = divmod(ns, 86400 * 10 ** 9)
    s, r = divmod(r, 10 ** 9)
    us, n = divmod(r, 1000)
    return {"d": d, "s": s, "us": us, "ns": n}


def join(d, s, us, n=0):
    return ((d * 86400 + s) * 10 ** 6 + us) * 1000 + n


def fields(txt):
    m = PV_RE.match(txt)
    if not m:
        return None
    Y, M, D, h, mi, sec, us = (int(x) for x in m.groups())
    return {"Y": Y, "M": M, "D": D, "h": h, "m": mi, "sec": sec, "us": us}


def fmt(p):
    return "%04d-%02d-%02dT%02d:%02d:%02d.%06dZ" % (p["Y"], p["M"], p["D"], p["h"], p["m"], p["sec"], p["us"])


def inst_tla(x):
    return "[d |-> %d, s |-> %d, us |-> %d, ns |-> %d]" % (x["d"], x["s"], x["us"], x["ns"])


def pv_tla(p):
    return "[Y |-> %d, M |-> %d, D |-> %d, h |-> %d, m |-> %d, sec |-> %d, us |-> %d]" % (
        p["Y"], p["M"], p["D"], p["h"], p["m"], p["sec"], p["us"])


def instants(tier, seed):
    rnd = random.Random(repr(("c16", seed)))
    grid = [join(d, s, u) for d in GRID_DAYS for s in GRID_SECS for u in GRID_US]
    n = 20000 if tier == "quick" else 300000
    rand = [join(rnd.randrange(0, MAX_DAY + 1), rnd.randrange(86400), rnd.randrange(10 ** 6)) for _ in range(n)]
    # OTel times are nanoseconds: instants with a sub-microsecond part - every grid instant with the sub-microsecond
    # values around the rounding point, random ones, and random ones in the last microsecond of a second
    subus = [x + n for x in grid for n in GRID_NS] + [x + rnd.randrange(1, 1000) for x in rand[:2000]] + \
            [join(rnd.randrange(0, MAX_DAY + 1), rnd.randrange(86400), 999999, rnd.randrange(1, 1000)) for _ in range(1000)]
    return grid, rand, subus


# local time zones of the converting process (POSIX rule strings, no tz database needed): the conversions are between
# UTC instants and UTC strings and must not depend on them.  Daylight-saving zones of both hemispheres, a fixed offset
# with a half hour
ZONES = ["GMT0BST,M3.5.0/1,M10.5.0/2", "EST5EDT,M3.2.0,M11.1.0", "CET-1CEST,M3.5.0,M10.5.0/3", "AEST-10AEDT,M10.1.0,M4.1.0/3",
         "IST-5:30"]


def switch_instants(tier):
    """every hour (start, middle, last microsecond) of the Saturdays and Sundays on which daylight saving starts or ends
    somewhere: second Sunday of March, last Sundays of March and October, first Sundays of April, October and November"""
    out = []
    for year in ((2024, 2099) if tier == "quick" else (1996, 2010, 2024, 2037, 2038, 2099)):
        for month, lo, hi in ((3, 8, 14), (3, 25, 31), (4, 1, 7), (10, 1, 7), (10, 25, 31), (11, 1, 7)):
            for day in range(lo, hi + 1):
                dt = datetime.date(year, month, day)
                if dt.weekday() == 6:
                    for d in (dt - datetime.timedelta(days=1), dt):
                        dn = (d - datetime.date(1970, 1, 1)).days
                        for h in range(24):
                            out += [join(dn, h * 3600, 0), join(dn, h * 3600 + 1800, 500000), join(dn, h * 3600 + 3599, 999999)]
    return out


def run(chk, tier, seed):
    cfg = "INIT Init\nNEXT Next\nINVARIANT RoundTripNs\nINVARIANT RoundTripPv\nINVARIANT Monotone\nINVARIANT NextDay\nINVARIANT CarryOk\n"
    self_r = tlc.run_tlc("PvTime", cfg, {"PvData": tlc.data_module("PvData", {"DayRange": "{}", "Obs": "<<>>"}, extends="Integers, Sequences")},
                         modules=["PvTime"], workers=8, jvm="throughput")
    for v in self_r.violated:
        raise RuntimeError("spec/PvTime.tla is not self-consistent: " + v)
    # the whole calendar of the quantifier's range: every day 1970-01-01 .. 2100-12-31 (its first and its last microsecond) round-trips, is followed by the next date, and rounding up carries correctly
    cal_r = tlc.run_tlc("PvTime", "INIT Init\nNEXT Next\nINVARIANT RoundTripNs\nINVARIANT RoundTripPv\nINVARIANT NextDay\nINVARIANT CarryOk\n",
                        {"PvData": tlc.data_module("PvData", {"DayRange": "0..%d" % MAX_DAY, "Obs": "<<>>"}, extends="Integers, Sequences")},
                        modules=["PvTime"], workers=8, jvm="throughput")
    for v in cal_r.violated:
        raise RuntimeError("spec/PvTime.tla is not self-consistent on the calendar 1970..2100: " + v)
    grid, rand, subus = instants(tier, seed)
    xs = grid + rand + subus
    # the date library is used only to *write* PV strings of chosen instants (inputs of the string -> ns direction)
    strings = []
    for x in grid + rand[: len(rand) // 2]:
        dt = datetime.datetime(1970, 1, 1) + datetime.timedelta(microseconds=x // 1000)
        strings.append(dt.strftime("%Y-%m-%dT%H:%M:%S.%fZ"))
    pairs = [(x, x + 1000) for x in grid + rand[:2000]] + [tuple(sorted((rand[2 * k], rand[2 * k + 1]))) for k in range(1000)]
    # nanosecond instants: pairs one nanosecond, half a microsecond and one microsecond apart (the order may collapse,
    # it must never reverse), in particular across the end of a second
    wpairs = [(x, x + dlt) for x in subus for dlt in (1, 500, 1000)]
    cases = [{"cid": "n2p", "op": "time_n2p", "xs": xs, "timeout": 600},
             {"cid": "p2n", "op": "time_p2n", "ps": strings, "timeout": 600},
             {"cid": "ord", "op": "time_n2p", "xs": [v for pr in pairs for v in pr], "timeout": 600},
             {"cid": "ordw", "op": "time_n2p", "xs": [v for pr in wpairs for v in pr], "timeout": 600}]
    sw = switch_instants(tier)
    zx = sw + grid[::7]
    zstrings = []
    for x in sw:
        dt = datetime.datetime(1970, 1, 1) + datetime.timedelta(microseconds=x // 1000)
        zstrings.append(dt.strftime("%Y-%m-%dT%H:%M:%S.%fZ"))
    for zi, tz in enumerate(ZONES):
        cases.append({"cid": "n2p-z%d" % zi, "op": "time_n2p", "xs": zx, "tz": tz, "timeout": 600})
        cases.append({"cid": "p2n-z%d" % zi, "op": "time_p2n", "ps": zstrings, "tz": tz, "timeout": 600})
    res = learner.run_cases(cases, parallel=4 + 2 * len(ZONES))
    for c in cases:
        if not res[c["cid"]].get("ok"):
            raise RuntimeError("converter call failed: %s" % res[c["cid"]])
    obs, meta = [], []

    def bad_format(kind, arg, out):
        chk.violation("%s(%s)" % (kind, arg), "format", {"call": kind, "argument": arg, "returned": out})
    for x, out in zip(xs, res["n2p"]["out"]):
        p = fields(out) if isinstance(out, str) else None
        if p is None:
            bad_format("unix_nano_to_pv_string", x, out)
            continue
        obs.append('[k |-> "n2p", x |-> %s, p |-> %s]' % (inst_tla(split(x)), pv_tla(p)))
        meta.append(("unix_nano_to_pv_string", x, out))
    for s, r in zip(strings, res["p2n"]["out"]):
        out, back = r
        if not isinstance(out, int):
            bad_format("convert_timestamp_to_unix_nano", s, out)
            continue
        obs.append('[k |-> "p2n", p |-> %s, x |-> %s]' % (pv_tla(fields(s)), inst_tla(split(out))))
        meta.append(("convert_timestamp_to_unix_nano", s, out))
        pb = fields(back) if isinstance(back, str) else None
        if pb is None:
            bad_format("round trip", s, back)
            continue
        obs.append('[k |-> "n2p", x |-> %s, p |-> %s]' % (inst_tla(split(join(0, 0, 0) + PvToNsPy(fields(s)))), pv_tla(pb)))
        meta.append(("PV -> ns -> PV round trip", s, back))
    # the same conversions in processes whose local time zone is not UTC
    for zi, tz in enumerate(ZONES):
        for x, out in zip(zx, res["n2p-z%d" % zi]["out"]):
            p = fields(out) if isinstance(out, str) else None
            if p is None:
                bad_format("unix_nano_to_pv_string [TZ=%s]" % tz, x, out)
                continue
            obs.append('[k |-> "n2p", x |-> %s, p |-> %s]' % (inst_tla(split(x)), pv_tla(p)))
            meta.append(("unix_nano_to_pv_string [TZ=%s]" % tz, x, out))
        for s_, r in zip(zstrings, res["p2n-z%d" % zi]["out"]):
            out, back = r
            if not isinstance(out, int):
                bad_format("convert_timestamp_to_unix_nano [TZ=%s]" % tz, s_, out)
                continue
            obs.append('[k |-> "p2n", p |-> %s, x |-> %s]' % (pv_tla(fields(s_)), inst_tla(split(out))))
            meta.append(("convert_timestamp_to_unix_nano [TZ=%s]" % tz, s_, out))
            pb = fields(back) if isinstance(back, str) else None
            if pb is None:
                bad_format("round trip [TZ=%s]" % tz, s_, back)
                continue
            obs.append('[k |-> "n2p", x |-> %s, p |-> %s]' % (inst_tla(split(PvToNsPy(fields(s_)))), pv_tla(pb)))
            meta.append(("PV -> ns -> PV round trip [TZ=%s]" % tz, s_, back))
    outs = res["ord"]["out"]
    for k, (x, y) in enumerate(pairs):
        p, q = fields(outs[2 * k]), fields(outs[2 * k + 1])
        if p is None or q is None:
            continue
        obs.append('[k |-> "ord", x |-> %s, y |-> %s, p |-> %s, q |-> %s]' % (inst_tla(split(x)), inst_tla(split(y)),
                                                                             pv_tla(p), pv_tla(q)))
        meta.append(("order", (x, y), (outs[2 * k], outs[2 * k + 1])))
    outs = res["ordw"]["out"]
    for k, (x, y) in enumerate(wpairs):
        p, q = fields(outs[2 * k]), fields(outs[2 * k + 1])
        if p is None or q is None:
            continue
        obs.append('[k |-> "ordw", x |-> %s, y |-> %s, p |-> %s, q |-> %s]' % (inst_tla(split(x)), inst_tla(split(y)),
                                                                              pv_tla(p), pv_tla(q)))
        meta.append(("order", (x, y), (outs[2 * k], outs[2 * k + 1])))
    # TLC validates every observation
    idx = list(range(len(obs)))
    nsh = max(1, min(10, (len(obs) + 9999) // 10000))
    shards = [idx[i::nsh] for i in range(nsh)]
    runs = [dict(main="PvTime", cfg="INIT Init\nNEXT Next\nINVARIANT Report\n",
                 data={"PvData": tlc.data_module("PvData", {"DayRange": "{}", "Obs": "<<\n " + ",\n ".join(obs[i] for i in s) + "\n>>"},
                                                 extends="Integers, Sequences")},
                 modules=["PvTime"], workers=1, allow_violation=False, timeout=1800) for s in shards]
    states = self_r.distinct + cal_r.distinct
    gen = self_r.generated + cal_r.generated
    nbad = 0
    for s, r in zip(shards, tlc.run_many(runs, 10)):
        states += r.distinct
        gen += r.generated
        ok = {v[1] for v in tlc.extract(r.out, "OK")}
        badl = {v[1] for v in tlc.extract(r.out, "BAD")}
        if len(ok) + len(badl) != len(s):
            raise tlc.TLCError("PvTime did not judge every observation")
        for j in sorted(badl):
            kind, arg, out = meta[s[j - 1]]
            nbad += 1
            chk.violation("%s(%s)" % (kind, arg), "mismatch:" + kind.split()[0],
                          {"call": kind, "argument": arg, "returned": out,
                           "argument_split": split(arg) if isinstance(arg, int) else None})
    chk.samples = [{"call": m[0], "argument": m[1], "returned": m[2]} for m in (meta[0], meta[len(meta) // 2], meta[-1])]
    cov = {"states": states, "transitions": gen, "traces_validated_against_impl": len(obs), "evaluations": len(obs),
           "distinct_nontrivial": len({repr(m[1]) for m in meta
                                       if (isinstance(m[1], int) and m[1] % 10 ** 9 != 0)
                                       or (isinstance(m[1], str) and not m[1].endswith(".000000Z"))
                                       or isinstance(m[1], tuple)}),
           "rule": "boundary grid (%d days x %d seconds x %d microseconds, exhaustive) + seeded microsecond-precision "
                   "instants in 1970..2100; one observation = one call of a converter (or a round trip / ordered pair); "
                   "non-trivial = distinct argument with a non-zero fractional second" % (
                       len(GRID_DAYS), len(GRID_SECS), len(GRID_US)),
           "local_time_zones_of_the_converting_process": ZONES, "daylight_saving_switch_instants": len(sw),
           "grid_instants": len(grid), "random_instants": len(rand), "nanosecond_instants": len(subus),
           "nanosecond_ordered_pairs": len(wpairs), "mismatches": nbad,
           "spec_self_check_states": self_r.distinct, "spec_calendar_states_every_day_1970_2100": cal_r.distinct, "exhaustive": False,
           "explanation": "TLC is the exact-arithmetic oracle of a transcribed pure function; there is no interleaving to "
                          "explore (DESIGN section 8)"}
    return cov, ["instants split into limbs by the harness (divmod)", "PV strings parsed by a regular expression",
                 "an instant with a sub-microsecond part (nanosecond OTel time) may be truncated or rounded to the next "
                 "microsecond - either is accepted - but the result must be one of the two and the order of two such "
                 "instants must never be reversed"]


def PvToNsPy(p):
    """exact ns of a PV field record (harness-side, used only to label the round-trip observation's argument)"""
    d = (datetime.date(p["Y"], p["M"], p["D"]) - datetime.date(1970, 1, 1)).days
    return join(d, p["h"] * 3600 + p["m"] * 60 + p["sec"], p["us"])


def replay(chk, path):
    import json
    body = json.load(open(path))
    print(json.dumps(body["detail"], indent=1))
    return run(chk, "quick", chk.seed) and (1 if chk.violations else 0)
