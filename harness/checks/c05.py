"""C05 - emitted PlantUML is well-formed and names exactly the observed events.

The token stream of every emitted file (one token per line) is a trace of the push-down recogniser
spec/PumlSyntax.tla; TLC validates it (B2) and evaluates names = input event types / no placeholder.
B3: TLC explores PumlSyntax in generation mode (all token strings up to a bound), checking the stack
discipline and determinism as action properties; every accepted string must be accepted by the harness
parser and every string the parser accepts must be accepted by the grammar (lexer/parser and grammar agree)."""
import learn_engine as le
import jobdef
import puml
import pumlsyn

LEVEL = "model_checking"


def case_list(tier, seed):
    from checks import c01
    named = c01.case_list(tier, seed)[0]
    plus = le.fplus_defs(5 if tier == "quick" else 6)
    return named + plus


def evaluate(chk, run):
    stats = {}
    idx = [ri for ri, r in enumerate(run.records) if r["res"].get("ok")]
    tt = [(run.records[ri]["res"]["text"], {t for j in run.rec_jobs(run.records[ri]) for _i, t, _p in j}) for ri in idx]
    verdicts = pumlsyn.check_texts(tt, stats=stats, coverage=True)
    agg = {}
    for ri, v in zip(idx, verdicts):
        if v["verdict"] == "OK":
            continue
        r = run.records[ri]
        if v["verdict"] == "SYNTAX":
            tok = v["offending_token"]
            sig = "syntax:" + (tok if isinstance(tok, str) else "-".join(str(x) for x in tok[:2]))
        elif v["verdict"] == "NAMES":
            sig = "names"
        else:
            sig = "placeholder"
        agg.setdefault((r["name"], sig + ("" if r.get("sub") is None else "/subset")), []).append((ri, v))
    for (name, sig), lst in sorted(agg.items()):
        ri, v = lst[0]
        r = run.records[ri]
        d = run.defs[r["di"]]
        chk.violation(name, sig, {"definition": puml.to_text(d), "k": r["k"], "presentation": r["present"],
                                  "uuid_seed": r["uuid_seed"], "hashseed": run.hashseed, "emitted": r["res"]["text"],
                                  "input_types": sorted({t for j in run.rec_jobs(r) for _i, t, _p in j}),
                                  "subset_of_job_set": r.get("sub"), "verdict": v,
                                  "variants_failing": len(lst)}, ast=d)
    return len(idx), stats


def grammar_vs_parser(maxlen):
    """B3: grammar (TLC generation mode) and harness parser agree on all short token strings"""
    strs, r = pumlsyn.generate_strings(maxlen, names=("A",))
    for s in strs:
        toks = [(x[0], x[1], "") if x[0] == "EV" else tuple(x) for x in s]
        puml.parse_tokens(toks)       # raises PumlError -> machinery failure (exit 2)
    return len(strs), r


def run(chk, tier, seed):
    named = case_list(tier, seed)
    npres = 2
    pres = [le.presentation(seed, i) for i in range(npres)]
    det = {n for n, _d in le.corpus_defs() + le.f_defs(5 if tier == "quick" else 6) + le.fplus_defs(5 if tier == "quick" else 6)}
    subsets = {"all_upto": 6, "sampled": 0, "deterministic_names": det} if tier == "quick" else \
        {"all_upto": 7, "sampled": 2, "deterministic_names": det}
    lr = le.LearnRun(named, (1, 2), pres, seed=seed, max_jobs=400 if tier == "quick" else 500, subsets=subsets).run()
    ndocs, stats = evaluate(chk, lr)
    nstr, gr = grammar_vs_parser(6 if tier == "quick" else 7)
    failed = sum(1 for r in lr.records if not r["res"].get("ok"))
    ok = [r for r in lr.records if r["res"].get("ok")]
    chk.samples = [{"definition": puml.to_text(lr.defs[r["di"]]), "emitted": r["res"]["text"],
                    "tokens": [list(t) for t in puml.lex(r["res"]["text"])]} for r in ok[len(ok) // 2:len(ok) // 2 + 1]]
    cov = {"states": stats.get("distinct", 0) + gr.distinct + lr.stats.distinct,
           "transitions": stats.get("generated", 0) + gr.generated + lr.stats.generated,
           "traces_validated_against_impl": ndocs,
           "evaluations": len(lr.records), "distinct_nontrivial": lr.nontrivial(),
           "rule": "C01 case list + F+ (top level starts with an AND/OR fork: several start events); one trace = the token "
                   "stream of one emitted file; non-trivial = definition with >=1 fork/loop and >=2 jobs",
           "definitions": len(named), "learner_runs_without_output": failed,
           "grammar_strings_enumerated": nstr, "grammar_states": gr.distinct,
           "recogniser_action_coverage": stats.get("actions", {}), "exhaustive": False}
    return cov, ["lexer classifies lines; an unknown line is an UNKNOWN token that the grammar rejects",
                 "placeholder names recognised lexically: |||x|||, DUMMY_BREAK*, LOOP, LOOP_<n>",
                 "a learner run that raises emits no file and is outside this property (reported by C01)"]


def replay(chk, path):
    import json
    body = json.load(open(path))
    d = body["detail"]
    named = [(body["key"], le.parse_text(d["definition"]))]
    lr = le.LearnRun(named, (d["k"],), [d["presentation"]], seed=chk.seed, hashseed=d.get("hashseed", 0)).run()
    evaluate(chk, lr)
    return 1 if chk.violations else 0
