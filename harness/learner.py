"""Driver for worker.py: shards cases over child processes (one PYTHONHASHSEED per process),
attributes crashes/hangs to single cases, re-runs timeouts alone before reporting them."""
from __future__ import annotations

import json
import os
import shutil
import subprocess
import sys
import tempfile
import time
from concurrent.futures import ThreadPoolExecutor

HARNESS = os.path.dirname(os.path.abspath(__file__))
VERIF = os.path.dirname(HARNESS)
WORK = os.path.join(VERIF, "work")
REPO = os.environ.get("VERIF_REPO", "/repo")
PY = os.environ.get("VERIF_PYTHON", "/venv/bin/python")
GUARD = "OTEL2PUML_VERIF"


def child_env(hashseed=0):
    e = dict(os.environ)
    e["PYTHONPATH"] = os.pathsep.join([os.path.join(HARNESS, "shim"), REPO, HARNESS])
    e["PYTHONHASHSEED"] = str(hashseed)
    e["PYTHONDONTWRITEBYTECODE"] = "1"
    e[GUARD] = "1"
    e.pop("PYTHONSTARTUP", None)
    return e


def _run_shard(cases, hashseed, wd, tag, hard_timeout):
    """run one worker over `cases`; on abnormal exit attribute to the first unanswered case and continue"""
    results = {}
    todo = list(cases)
    rnd = 0
    while todo:
        rnd += 1
        cpath = os.path.join(wd, "%s-%d.cases" % (tag, rnd))
        rpath = os.path.join(wd, "%s-%d.res" % (tag, rnd))
        with open(cpath, "w") as fh:
            for c in todo:
                fh.write(json.dumps(c) + "\n")
        open(rpath, "w").close()
        budget = hard_timeout + sum(int(c.get("timeout", 120)) for c in todo)
        try:
            p = subprocess.run([PY, os.path.join(HARNESS, "worker.py"), cpath, rpath], env=child_env(hashseed),
                               capture_output=True, text=True, timeout=budget)
            rc, err = p.returncode, p.stderr[-2000:]
        except subprocess.TimeoutExpired:
            rc, err = -9, "worker exceeded its time budget"
        got = []
        with open(rpath) as fh:
            for line in fh:
                try:
                    got.append(json.loads(line))
                except json.JSONDecodeError:
                    break
        for r in got:
            results[r["cid"]] = r
        todo = [c for c in todo if c["cid"] not in results]
        if rc == 0 and not todo:
            break
        if todo:
            bad = todo.pop(0)      # the case during which the worker died
            results[bad["cid"]] = {"cid": bad["cid"], "ok": False, "kind": "crash",
                                   "error": "worker died (rc=%s): %s" % (rc, err.strip().splitlines()[-1:] or "")}
    return results


def run_cases(cases: list[dict], hashseed: int = 0, parallel: int = 16, hard_timeout: int = 300) -> dict:
    """cases: dicts with unique 'cid' and 'op'.  Returns {cid: result}."""
    if not cases:
        return {}
    os.makedirs(WORK, exist_ok=True)
    wd = tempfile.mkdtemp(prefix="learn-", dir=WORK)
    try:
        n = max(1, min(parallel, (len(cases) + 3) // 4))
        shards = [cases[i::n] for i in range(n)]
        out = {}
        with ThreadPoolExecutor(max_workers=n) as ex:
            futs = [ex.submit(_run_shard, sh, hashseed, wd, "s%d" % i, hard_timeout) for i, sh in enumerate(shards)]
            for f in futs:
                out.update(f.result())
        # a timeout is re-run alone (machine load must not create verdicts)
        again = [c for c in cases if out[c["cid"]].get("kind") == "timeout"]
        if again:
            with ThreadPoolExecutor(max_workers=min(4, len(again))) as ex:
                futs = [ex.submit(_run_shard, [dict(c, timeout=int(c.get("timeout", 120)) * 2)], hashseed, wd,
                                  "r%d" % i, hard_timeout) for i, c in enumerate(again)]
                for f in futs:
                    out.update(f.result())
        return out
    finally:
        shutil.rmtree(wd, ignore_errors=True)


def run_cases_multi(groups: dict[int, list[dict]], parallel: int = 16) -> dict:
    """groups: {hashseed: cases}; all run concurrently, sharing `parallel` processes."""
    out = {}
    seeds = list(groups)
    per = max(1, parallel // max(1, len(seeds)))
    with ThreadPoolExecutor(max_workers=len(seeds) or 1) as ex:
        futs = [ex.submit(run_cases, groups[s], s, per) for s in seeds]
        for f in futs:
            out.update(f.result())
    return out


if __name__ == "__main__":
    t = time.time()
    jobs = [[[1, "A", []], [2, "B", [1]], [3, "D", [2]]], [[1, "A", []], [2, "C", [1]], [3, "D", [2]]]]
    r = run_cases([{"cid": "t%d" % i, "op": "learn", "jobs": jobs} for i in range(4)], parallel=2)
    print(json.dumps(r, indent=1)[:1500], time.time() - t)
