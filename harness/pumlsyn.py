"""Binding to spec/PumlSyntax.tla: token streams of emitted files validated by TLC."""
from __future__ import annotations

import re

import tlc
from puml import lex

CFG = "INIT Init\nNEXT Next\nINVARIANT Report\nINVARIANT TypeOK\nINVARIANT StackOnlyInBody\nINVARIANT BreakHasLoop\n" \
      "PROPERTY CloseMatches\nPROPERTY Deterministic\n"
PFX_CFG = "INIT Init\nNEXT Next\nINVARIANT Report\nINVARIANT ReportPrefix\n"
MODULES = ["PumlSyntax"]
ACTIONS = ["StartUml", "Partition", "Group", "EndGroup", "RBrace", "EndUml", "Comment", "Event", "Open", "Sep", "Close",
           "Break", "Detach"]
_PH = re.compile(r"^(\|\|\|.*\|\|\||DUMMY_BREAK.*|LOOP(_\d+)?)$")


def is_placeholder(name: str) -> bool:
    return bool(_PH.match(name))


def tok_tla(tk) -> str:
    t = tk[0]
    v = tk[1] if len(tk) > 1 and t in ("EV", "OPEN", "SEP", "CLOSE") else ""
    ph = t == "EV" and is_placeholder(tk[1])
    return '[t |-> %s, v |-> %s, ph |-> %s]' % (tlc.tla_str(t), tlc.tla_str(v), "TRUE" if ph else "FALSE")


def _data(docs, gen=False, maxlen=0, alphabet=()):
    dtxt = "<<>>"
    if docs:
        dtxt = "<<\n  " + ",\n  ".join("[toks |-> <<%s>>, types |-> %s]" % (
            ", ".join(tok_tla(t) for t in toks), tlc.tla(set(types))) for toks, types in docs) + "\n>>"
    return {"PumlData": tlc.data_module("PumlData", {
        "Gen": "TRUE" if gen else "FALSE", "Docs": dtxt, "MaxLen": str(maxlen),
        "Alphabet": "{" + ", ".join(tok_tla(t) for t in alphabet) + "}"})}


def check_texts(texts_types: list, *, parallel=8, stats=None, coverage=False):
    """texts_types: list of (emitted text, set of input event types).
    Returns list of verdict dicts {"verdict": "OK"|"NAMES"|"LEAK"|"SYNTAX", ...} decided by TLC."""
    docs = [(lex(t), ty) for t, ty in texts_types]
    n = len(docs)
    res = [None] * n
    if n == 0:
        return res
    idx = list(range(n))
    nsh = max(1, (n + 599) // 600)
    shards = [idx[i::nsh] for i in range(nsh)]
    runs = [dict(main="PumlSyntax", cfg=CFG, data=_data([docs[i] for i in s]), modules=MODULES, workers=1,
                 coverage=coverage, allow_violation=False) for s in shards]
    for s, r in zip(shards, tlc.run_many(runs, parallel)):
        if stats is not None:
            stats["generated"] = stats.get("generated", 0) + r.generated
            stats["distinct"] = stats.get("distinct", 0) + r.distinct
            if coverage:
                for k, v in tlc.action_counts(r.out, "PumlSyntax", ACTIONS).items():
                    stats.setdefault("actions", {})[k] = stats.get("actions", {}).get(k, 0) + v
        for v in tlc.extract(r.out, "OK"):
            res[s[v[1] - 1]] = {"verdict": "OK"}
        for v in tlc.extract(r.out, "NAMES"):
            res[s[v[1] - 1]] = {"verdict": "NAMES", "names": sorted(v[2])}
        for v in tlc.extract(r.out, "LEAK"):
            res[s[v[1] - 1]] = {"verdict": "LEAK", "names": sorted(v[2])}
    bad = [i for i in idx if res[i] is None]
    if bad:
        r = tlc.run_tlc("PumlSyntax", PFX_CFG, _data([docs[i] for i in bad]), modules=MODULES, workers=1)
        best = {}
        for v in tlc.extract(r.out, "PFX"):
            if v[1] not in best or v[2] > best[v[1]][2]:
                best[v[1]] = v
        for k, i in enumerate(bad, 1):
            v = best[k]
            toks = docs[i][0]
            pos = v[2]
            res[i] = {"verdict": "SYNTAX", "pos": pos, "phase": v[3], "after": v[4],
                      "open_blocks": [fr["k"] for fr in v[5]],
                      "offending_token": list(toks[pos - 1]) if pos <= len(toks) else "END-OF-FILE"}
    return res


def alphabet(names=("A", "B")):
    al = [("EV", n, "") for n in names] + [("BREAK",), ("DETACH",)]
    for k in ("if", "switch", "fork", "split", "repeat"):
        al.append(("OPEN", k))
        al.append(("CLOSE", k))
        if k != "repeat":
            al.append(("SEP", k))
    return al


def generate_strings(maxlen, names=("A",), kinds=None, workers=8):
    """all token strings the grammar accepts with at most maxlen body tokens (B3 of C05)"""
    al = [t for t in alphabet(names) if kinds is None or t[0] in ("EV", "BREAK", "DETACH") or t[1] in kinds]
    r = tlc.run_tlc("PumlSyntax", CFG, _data([], gen=True, maxlen=maxlen, alphabet=al), modules=MODULES,
                    workers=workers, allow_violation=False, timeout=1800, jvm="throughput")
    out = []
    for v in tlc.extract(r.out, "STR"):
        out.append([(t["t"], t["v"]) if t["v"] else (t["t"],) for t in v[1]])
    return out, r
