"""PlantUML activity-diagram lexer / parser (both the corpus dialect and the emitted dialect).

No semantics here: a line becomes a token, tokens become constructors of the
definition tree consumed by spec/JobDef.tla.  A line the lexer does not know is
an UNKNOWN token; the push-down recogniser spec/PumlSyntax.tla rejects it.

AST:  ("seq", [item, ...])   item ::= ("ev", name) | ("and"|"or"|"xor", [seq, ...])
                                      | ("loop", seq) | ("break",) | ("detach",)
"""
from __future__ import annotations

import re

# block kinds of the dialect and the gate they denote
KIND_GATE = {"if": "xor", "switch": "xor", "fork": "and", "split": "or", "repeat": "loop"}

_EV = re.compile(r"^(#\w+)?:(.*);$")


class PumlError(ValueError):
    pass


def lex(text: str) -> list[tuple]:
    """One token per non-empty line.  Tokens:
    ("STARTUML",) ("ENDUML",) ("PARTITION", name) ("RBRACE",) ("GROUP", name) ("ENDGROUP",)
    ("EV", name, extra) ("OPEN", kind) ("SEP", kind) ("CLOSE", kind) ("BREAK",) ("DETACH",)
    ("COMMENT",) ("UNKNOWN", line)"""
    toks = []
    for raw in text.splitlines():
        ln = raw.strip()
        if not ln:
            continue
        if ln.startswith("'"):
            toks.append(("COMMENT",))
        elif ln == "@startuml":
            toks.append(("STARTUML",))
        elif ln == "@enduml":
            toks.append(("ENDUML",))
        elif re.match(r'^partition\s+"[^"]*"\s*\{$', ln):
            toks.append(("PARTITION", ln.split('"')[1]))
        elif ln == "}":
            toks.append(("RBRACE",))
        elif re.match(r'^group\s+"[^"]*"$', ln):
            toks.append(("GROUP", ln.split('"')[1]))
        elif ln == "end group":
            toks.append(("ENDGROUP",))
        elif _EV.match(ln):
            body = _EV.match(ln).group(2)
            parts = body.split(",")
            toks.append(("EV", parts[0], ",".join(parts[1:])))
        elif ln == "break":
            toks.append(("BREAK",))
        elif ln in ("kill", "detach"):
            toks.append(("DETACH",))
        elif re.match(r"^if\s*\(.*\)\s*then(\s*\(.*\))?$", ln):
            toks.append(("OPEN", "if"))
        elif re.match(r"^else(\s*\(.*\))?$", ln) or re.match(r"^elseif\s*\(.*\)\s*then(\s*\(.*\))?$", ln):
            toks.append(("SEP", "if"))
        elif ln == "endif":
            toks.append(("CLOSE", "if"))
        elif re.match(r"^switch\s*\(.*\)$", ln):
            toks.append(("OPEN", "switch"))
        elif re.match(r"^case\s*\(.*\)$", ln):
            toks.append(("SEP", "switch"))
        elif ln == "endswitch":
            toks.append(("CLOSE", "switch"))
        elif ln == "fork":
            toks.append(("OPEN", "fork"))
        elif ln == "fork again":
            toks.append(("SEP", "fork"))
        elif ln in ("end fork", "end merge"):
            toks.append(("CLOSE", "fork"))
        elif ln == "split":
            toks.append(("OPEN", "split"))
        elif ln == "split again":
            toks.append(("SEP", "split"))
        elif ln == "end split":
            toks.append(("CLOSE", "split"))
        elif re.match(r"^repeat\s+while(\s*\(.*\))?$", ln):
            toks.append(("CLOSE", "repeat"))
        elif ln == "repeat":
            toks.append(("OPEN", "repeat"))
        else:
            toks.append(("UNKNOWN", ln))
    return toks


def parse_tokens(toks: list[tuple]) -> tuple:
    """Tokens -> AST.  Raises PumlError on a structure the grammar does not allow
    (the grammar itself is spec/PumlSyntax.tla; this parser is checked against it)."""
    stack = []   # frames [kind, branches, saved_cur, first_case_pending]
    cur: list = []
    root = None
    in_group = False
    for tk in toks:
        t = tk[0]
        if t in ("COMMENT", "STARTUML", "PARTITION", "RBRACE", "ENDUML"):
            continue
        if t == "GROUP":
            in_group = True
            continue
        if t == "ENDGROUP":
            if stack:
                raise PumlError("end group with open block " + stack[-1][0])
            root = ("seq", cur)
            in_group = False
            break
        if not in_group:
            raise PumlError("activity outside group: %r" % (tk,))
        if t == "EV":
            cur.append(("ev", tk[1]))
        elif t == "BREAK":
            cur.append(("break",))
        elif t == "DETACH":
            cur.append(("detach",))
        elif t == "OPEN":
            stack.append([tk[1], [], cur, tk[1] == "switch"])
            cur = []
        elif t == "SEP":
            if not stack or stack[-1][0] != tk[1]:
                raise PumlError("separator %s outside its block" % tk[1])
            fr = stack[-1]
            if fr[3]:                     # first case directly after switch
                if cur:
                    raise PumlError("activity between switch and first case")
                fr[3] = False
                continue
            fr[1].append(("seq", cur))
            cur = []
        elif t == "CLOSE":
            if not stack or stack[-1][0] != tk[1]:
                raise PumlError("terminator %s does not match open block" % tk[1])
            fr = stack.pop()
            if fr[3]:
                raise PumlError("switch without case")
            if fr[0] == "repeat":
                body = ("seq", cur)
                cur = fr[2]
                cur.append(("loop", body))
            else:
                fr[1].append(("seq", cur))
                cur = fr[2]
                cur.append((KIND_GATE[fr[0]], fr[1]))
        else:
            raise PumlError("unparsed line: %r" % (tk,))
    if root is None:
        raise PumlError("no group / end group frame")
    return root


def parse(text: str) -> tuple:
    return parse_tokens(lex(text))


# ------------------------------------------------------------------ AST helpers
def events_of(n) -> set:
    k = n[0]
    if k == "ev":
        return {n[1]}
    if k in ("break", "detach"):
        return set()
    if k == "loop":
        return events_of(n[1])
    s = set()
    for c in n[1]:
        s |= events_of(c)
    return s


def event_list(n) -> list:
    k = n[0]
    if k == "ev":
        return [n[1]]
    if k in ("break", "detach"):
        return []
    if k == "loop":
        return event_list(n[1])
    out = []
    for c in n[1]:
        out += event_list(c)
    return out


def to_text(n, ind=0) -> str:
    """compact, canonical, human-readable rendering (also used as a stable key)"""
    k = n[0]
    if k == "seq":
        return ";".join(to_text(c) for c in n[1])
    if k == "ev":
        return n[1]
    if k == "break":
        return "break"
    if k == "detach":
        return "detach"
    if k == "loop":
        return "loop{" + to_text(n[1]) + "}"
    return k.upper() + "(" + "|".join(to_text(b) for b in n[1]) + ")"


def to_tla(n) -> str:
    k = n[0]
    if k == "ev":
        return '[k |-> "ev", n |-> "%s"]' % n[1]
    if k in ("break", "detach"):
        return '[k |-> "%s"]' % k
    if k == "loop":
        return '[k |-> "loop", c |-> <<%s>>]' % to_tla(n[1])
    return '[k |-> "%s", c |-> <<%s>>]' % (k, ", ".join(to_tla(c) for c in n[1]))


def to_puml(n, name="x", dialect="emitted") -> str:
    """render an AST as PlantUML text (used to exercise lexer/parser round trips)"""
    lines = ["@startuml", 'partition "%s" {' % name, 'group "%s"' % name]

    def seq(s, ind):
        for it in s[1]:
            item(it, ind)

    def item(it, ind):
        p = " " * ind
        k = it[0]
        if k == "ev":
            lines.append(p + ":%s;" % it[1])
        elif k == "break":
            lines.append(p + "break")
        elif k == "detach":
            lines.append(p + "detach")
        elif k == "loop":
            lines.append(p + "repeat")
            seq(it[1], ind + 4)
            lines.append(p + "repeat while")
        else:
            op, sep, cl = {"xor": ("switch (XOR)", 'case ("")', "endswitch"), "and": ("fork", "fork again", "end fork"),
                           "or": ("split", "split again", "end split")}[k]
            lines.append(p + op)
            for i, b in enumerate(it[1]):
                if k == "xor" or i > 0:
                    lines.append(p + sep)
                seq(b, ind + 4)
            lines.append(p + cl)

    seq(n, 4)
    lines += ["end group", "}", "@enduml"]
    return "\n".join(lines)


def njobs_estimate(n, K=2, cap=10 ** 9) -> int:
    """rough upper estimate of |Jobs_K(D)| used only to choose between exhaustive
    generation and sampling (no semantic role)."""
    k = n[0]
    if k in ("ev", "break", "detach"):
        return 1
    if k == "seq":
        r = 1
        for c in n[1]:
            r = min(cap, r * njobs_estimate(c, K, cap))
        return r
    if k == "xor":
        return min(cap, sum(njobs_estimate(c, K, cap) for c in n[1]))
    if k == "and":
        r = 1
        for c in n[1]:
            r = min(cap, r * njobs_estimate(c, K, cap))
        return r
    if k == "or":
        r = 1
        for c in n[1]:
            r = min(cap, r * (1 + njobs_estimate(c, K, cap)))
        return max(1, r - 1)
    if k == "loop":
        b = njobs_estimate(n[1], K, cap)
        r, p = 0, 1
        for _ in range(K):
            p = min(cap, p * b)
            r = min(cap, r + p)
        return r
    raise ValueError(k)
