"""Operations the worker can perform on the real otel2puml code (imported lazily)."""
import os
import random
import uuid


class ImplError(Exception):
    """raised by an op when the implementation returned something structurally unusable"""


def warm():
    """import the heavy modules before the first case is timed"""
    import tel2puml.pv_to_puml.pv_to_puml  # noqa: F401


def seed_uuid(seed):
    """Replace uuid4 as imported by name into the learner's modules by a seeded generator, so
    that container iteration orders driven by uuid hashes are reproducible from (hash seed, uuid seed)."""
    rnd = random.Random(seed)

    def uuid4():
        return uuid.UUID(int=rnd.getrandbits(128), version=4)
    import tel2puml.events as ev
    import tel2puml.logic_detection as ld
    import tel2puml.pv_to_puml.walk_puml_graph.node as nd
    for mod in (ev, ld, nd):
        if hasattr(mod, "uuid4"):
            mod.uuid4 = uuid4
    return rnd


def render_jobs(jobs, present):
    """jobs: [[ [id, ty, [pv ids]] ...] ...]  ->  list of lists of PVEvent dicts.
    present: {pseed, shuffle_jobs, shuffle_events, dup, dup_mode, ts_shift, job_name}"""
    rnd = random.Random(present.get("pseed", 0))

    def uid():
        return str(uuid.UUID(int=rnd.getrandbits(128), version=4))
    shift = int(present.get("ts_shift", 0))
    ts = "2023-09-%02dT10:%02d:06.059959Z" % (1 + shift % 28, shift % 60)
    name = present.get("job_name", "j")
    seqs = []

    def one(job, ids=None, jid=None):
        jid = jid or uid()
        ids = ids or {e[0]: uid() for e in job}
        evs = [dict(jobId=jid, jobName=name, eventType=e[1], eventId=ids[e[0]], timestamp=ts,
                    applicationName="app", previousEventIds=[ids[p] for p in sorted(e[2])]) for e in job]
        return evs, ids, jid
    rendered = []
    for job in jobs:
        rendered.append(one(job))
    seqs = [r[0] for r in rendered]
    dup = present.get("dup")
    if dup is not None and jobs:
        k = dup % len(jobs)
        if present.get("dup_mode", "fresh") == "same_ids":
            seqs.append([dict(e) for e in rendered[k][0]])
        else:
            seqs.append(one(jobs[k])[0])
    if present.get("shuffle_events"):
        for s in seqs:
            rnd.shuffle(s)
    if present.get("shuffle_jobs"):
        rnd.shuffle(seqs)
    return seqs


def op_learn(case):
    from tel2puml.pv_to_puml.pv_to_puml import pv_to_puml_string
    seed_uuid(case.get("uuid_seed", 0))
    seqs = render_jobs(case["jobs"], case.get("present", {}))
    seqs = via_files(seqs, case.get("present", {}))
    text = pv_to_puml_string(seqs, case.get("present", {}).get("job_name", "j"))
    if not isinstance(text, str):
        raise ImplError("pv_to_puml_string returned %r" % type(text))
    return {"text": text}


def via_files(seqs, present):
    """presentation through files, loaded by the real pv_files_to_pv_streams: route "job-files" - one JSON array per
    job; route "event-files" - one JSON object per event, the files of all jobs in one seeded shuffled order, clustered
    into jobs by the real code (-group-by-job)"""
    route = present.get("route")
    if not route:
        return seqs
    import json
    import os
    import shutil
    import tempfile
    from tel2puml.pv_to_puml.pv_to_puml import pv_files_to_pv_streams
    rnd = random.Random(present.get("pseed", 0) + 5)
    d = tempfile.mkdtemp(prefix="verif-files-", dir="/dev/shm" if os.path.isdir("/dev/shm") else None)
    try:
        files = []
        if route == "job-files":
            for k, job in enumerate(seqs):
                files.append(os.path.join(d, "job%04d.json" % k))
                with open(files[-1], "w") as fh:
                    json.dump(job, fh)
        else:
            evs = [e for job in seqs for e in job]
            rnd.shuffle(evs)
            for k, e in enumerate(evs):
                files.append(os.path.join(d, "ev%05d.json" % k))
                with open(files[-1], "w") as fh:
                    json.dump(e, fh)
        out = []
        for _name, jobs in pv_files_to_pv_streams(files, present.get("job_name", "j"), group_by_job_id=(route == "event-files")):
            out.extend([list(j) for j in jobs])
        return out
    finally:
        shutil.rmtree(d, ignore_errors=True)


OPS = {"learn": op_learn}


def dispatch(case):
    return OPS[case["op"]](case)


def register(name):
    def deco(fn):
        OPS[name] = fn
        return fn
    return deco


def set_tz(case):
    """the process's local time zone (POSIX rule string) for cases that ask for one: the conversions are between UTC
    instants and UTC strings and must not depend on it"""
    if case.get("tz"):
        import time
        os.environ["TZ"] = case["tz"]
        time.tzset()


@register("time_n2p")
def op_time_n2p(case):
    from tel2puml.utils import unix_nano_to_pv_string
    set_tz(case)
    out = []
    for x in case["xs"]:
        try:
            out.append(unix_nano_to_pv_string(x))
        except Exception as e:  # noqa: BLE001
            out.append({"error": repr(e)})
    return {"out": out}


@register("time_p2n")
def op_time_p2n(case):
    from tel2puml.pv_to_tel import convert_timestamp_to_unix_nano
    from tel2puml.utils import unix_nano_to_pv_string
    set_tz(case)
    out = []
    for p in case["ps"]:
        try:
            x = convert_timestamp_to_unix_nano(p)
            out.append([x, unix_nano_to_pv_string(x)])
        except Exception as e:  # noqa: BLE001
            out.append([{"error": repr(e)}, None])
    return {"out": out}


@register("sequence")
def op_sequence(case):
    """run the real sequencer on call-tree cases; returns per case the emitted PV job (or the error)"""
    from tel2puml.otel_to_pv.otel_to_pv_types import OTelEvent, OTelEventTypeMap
    from tel2puml.otel_to_pv.sequence_otel import sequence_otel_job_id_streams
    t0, mn = 1_700_000_000_000_000_000, 60_000_000_000
    rnd = random.Random(case.get("seed", 0))
    outs = []
    for c in case["cases"]:
        n = c["n"]
        kids = {i: [] for i in range(1, n + 1)}
        for i in range(2, n + 1):
            kids[c["par"][i - 1]].append(i)
        evs = []
        for i in range(1, n + 1):
            ch = ["s%d" % k for k in kids[i]]
            rnd.shuffle(ch)
            evs.append(OTelEvent(job_name=c.get("name", "wf"), job_id=c.get("job", "job-1"), event_type=c["ty"][i - 1],
                                 event_id="s%d" % i, start_timestamp=t0 + c["s"][i - 1] * mn,
                                 end_timestamp=t0 + c["e"][i - 1] * mn, application_name=c.get("app", "app-x"),
                                 parent_event_id=None if i == 1 else "s%d" % c["par"][i - 1], child_event_ids=ch))
        rnd.shuffle(evs)
        grp = {}
        for p, ct, g in c["grp"]:
            grp.setdefault(p, {})[ct] = g
        ren = {r["from"]: OTelEventTypeMap(mapped_event_type=r["to"], child_event_types=set(r["kids"])) for r in c["ren"]}
        try:
            jobs = list(sequence_otel_job_id_streams([evs], async_flag=c["async"], event_to_async_group_map=grp or None,
                                                     event_types_map_information=ren or None))
            pv = [dict(e) for j in jobs for e in j]
            outs.append({"pv": pv, "njobs": len(jobs)})
        except Exception as e:  # noqa: BLE001
            outs.append({"error": "%s: %s" % (type(e).__name__, str(e)[:200])})
    return {"outs": outs}


@register("sequence_pipeline")
def op_sequence_pipeline(case):
    """groups of call trees under different workflow names sequenced by ONE run of the real otel_to_pv each: the
    prior-information and rename maps travel through the configuration (SequenceModelConfig, looked up per workflow
    name), the spans through the SQL data holder (in-memory database) and the grouped stream"""
    from tel2puml.otel_to_pv import ingest_otel_data as iod
    from tel2puml.otel_to_pv.config import IngestDataConfig
    from tel2puml.otel_to_pv.otel_to_pv import otel_to_pv
    from tel2puml.otel_to_pv.otel_to_pv_types import OTelEvent
    t0, mn = 1_700_000_000_000_000_000, 60_000_000_000
    rnd = random.Random(case.get("seed", 0))
    outs = []
    saved = iod.DATASOURCES["json"]
    try:
        for group in case["groups"]:
            evs = []
            groups, renames = {}, {}
            for c in group:
                pfx = c["job"] + "/"
                for i in range(1, c["n"] + 1):
                    evs.append(OTelEvent(job_name=c["name"], job_id=c["job"], event_type=c["ty"][i - 1], event_id=pfx + "s%d" % i,
                                         start_timestamp=t0 + c["s"][i - 1] * mn, end_timestamp=t0 + c["e"][i - 1] * mn,
                                         application_name=c["app"],
                                         parent_event_id=None if i == 1 else pfx + "s%d" % c["par"][i - 1], child_event_ids=None))
                g = {}
                for p, ct, gid in c["grp"]:
                    g.setdefault(p, {})[ct] = gid
                if g:
                    groups[c["name"]] = g
                if c["ren"]:
                    renames[c["name"]] = {r["from"]: {"mapped_event_type": r["to"], "child_event_types": list(r["kids"])}
                                          for r in c["ren"]}
            rnd.shuffle(evs)

            class Source:
                def __init__(self, _config):
                    pass

                def __iter__(self, evs=evs):
                    return iter(evs)
            iod.DATASOURCES["json"] = Source
            cfg = {"data_sources": {"json": {"dirpath": ".", "filepath": None, "json_per_line": False, "jq_query": "."}},
                   "data_holders": {"sql": {"db_uri": "sqlite:///:memory:", "batch_size": rnd.choice((1, 3, 7, 50)), "time_buffer": 0}},
                   "ingest_data": {"data_source": "json", "data_holder": "sql"},
                   "sequencer": {"async_flag": bool(group[0]["async"]), "async_event_groups": groups,
                                 "event_name_map_information": renames}}
            try:
                jobs = {}
                for name, streams in otel_to_pv(IngestDataConfig(**cfg), ingest_data=True):
                    for stream in streams:
                        pv = [dict(e) for e in stream]
                        jid = pv[0]["jobId"] if pv else "?"
                        jobs.setdefault(jid, []).append({"name": name, "pv": pv})
                outs.append({"jobs": jobs})
            except Exception as e:  # noqa: BLE001
                outs.append({"error": "%s: %s" % (type(e).__name__, str(e)[:200])})
    finally:
        iod.DATASOURCES["json"] = saved
    return {"outs": outs}


@register("learn_chunks")
def op_learn_chunks(case):
    """learn a job set in chunks, each chunk boundary crossing save-to-JSON (-om) / load-from-JSON (-im) through the
    real pv_streams_to_puml_files / load_events_from_file; returns the diagram after every chunk"""
    import os
    import shutil
    import tempfile
    from tel2puml.events import load_events_from_file
    from tel2puml.pv_to_puml.pv_to_puml import pv_streams_to_puml_files
    seed_uuid(case.get("uuid_seed", 0))
    name = case.get("present", {}).get("job_name", "j")
    out = tempfile.mkdtemp(prefix="verif-c04-", dir="/dev/shm" if os.path.isdir("/dev/shm") else None)
    try:
        texts = []
        models = []
        for ci, chunk in enumerate(case["chunks"]):
            seqs = render_jobs(chunk, dict(case.get("present", {}), pseed=case.get("present", {}).get("pseed", 0) + ci))
            events_map = {}
            fname = name.replace(" ", "_")      # the documented file naming of pv_streams_to_puml_files
            mpath = os.path.join(out, "%s_model.json" % fname)
            if ci > 0:
                jn, events = load_events_from_file(mpath)
                events_map[jn] = events
            pv_streams_to_puml_files([(name, seqs)], out, events_map, save_models=True)
            with open(os.path.join(out, "%s.puml" % fname)) as fh:
                texts.append(fh.read())
            with open(mpath) as fh:
                models.append(fh.read())
        return {"text": texts[-1], "texts": texts, "model": models[-1]}
    finally:
        shutil.rmtree(out, ignore_errors=True)


def _canon_tree(t):
    """canonical text of a pm4py process tree (children sorted)"""
    if t is None:
        return None
    if t.operator is None:
        return "tau" if t.label is None else str(t.label)
    return "%s(%s)" % (t.operator.value if hasattr(t.operator, "value") else str(t.operator),
                       ",".join(sorted(_canon_tree(c) for c in t.children)))


def _project_events(events):
    from tel2puml.events import EventSet
    from tel2puml.logic_detection import calculate_logic_gates
    out = {}
    for name, ev in events.items():
        def bags(sets):
            return sorted(sorted([k, v] for k, v in s.items()) for s in sets)
        ob = bags(ev.event_sets)
        tree = getattr(ev, "_logic_gate_tree", None)
        rec = {"out": ob, "in": bags(ev.in_event_sets),
               "stale": getattr(ev, "_update_since_logic_gate_tree", None)}
        out[name] = rec
    return out


@register("model_replay")
def op_model_replay(case):
    """replay histories of spec/ModelCache.tla on real Event objects / model files; after every action return the
    projection of the model and, for a read action, which bags the returned tree is the tree of"""
    import os
    import tempfile
    from copy import deepcopy
    from tel2puml.events import EventSet, load_events_from_file, save_events_to_file
    from tel2puml.logic_detection import calculate_logic_gates
    from tel2puml.pv_to_puml.data_ingestion import update_and_create_events_from_clustered_pvevents
    jobs = case["jobs"]

    def pv_job(j, n):
        evs = []
        for e in j:
            if e["id"] == 0:
                continue      # the dummy start event is added by the ingestion itself
            evs.append(dict(jobId="job%d" % n, jobName="m", eventType=e["ty"], eventId="%d-%d" % (n, e["id"]),
                            timestamp="2023-09-25T10:58:06.059959Z", applicationName="app",
                            previousEventIds=["%d-%d" % (n, p) for p in e["pv"] if p != 0]))
        return evs
    tree_cache = {}

    def tree_of_bags(bags):
        key = repr(bags)
        if key not in tree_cache:
            sets = {EventSet([t for t, c in b for _ in range(c)]) for b in bags}
            tree_cache[key] = _canon_tree(calculate_logic_gates(sets)) if sets else None
        return tree_cache[key]
    fd, path = tempfile.mkstemp(prefix="verif-model-", suffix=".json", dir="/dev/shm" if os.path.isdir("/dev/shm") else None)
    os.close(fd)
    # the histories form a tree: every distinct prefix is executed once, on a deep copy of its parent's state
    trie = {}
    for hist in case["hists"]:
        node = trie
        for kind, arg in hist:
            node = node.setdefault((kind, arg), {})
    obs_by_prefix = {}

    def step(prefix, node, events, file_text, n):
        for (kind, arg), child in node.items():
            ev = deepcopy(events)
            ft, nn = file_text, n
            try:
                if kind == "ingest":
                    nn += 1
                    ev = update_and_create_events_from_clustered_pvevents([pv_job(jobs[arg - 1], nn)],
                                                                          add_dummy_start=True, events=ev)
                elif kind == "read":
                    ev[arg].logic_gate_tree  # noqa: B018
                elif kind == "save":
                    save_events_to_file("m", ev, path)
                    with open(path) as fh:
                        ft = fh.read()
                elif kind == "load":
                    with open(path, "w") as fh:
                        fh.write(ft)
                    _name, ev = load_events_from_file(path)
                proj = _project_events(ev)
                for t, rec in proj.items():
                    # what reading the tree now returns (read on a deep copy: the walk reads copies too)
                    rec["tree"] = _canon_tree(deepcopy(ev[t]).logic_gate_tree)
                    rec["tree_of"] = {repr(rec["out"]): tree_of_bags(rec["out"])}
                ob = {"types": proj}
            except Exception as e:  # noqa: BLE001
                ob = {"error": "%s: %s" % (type(e).__name__, str(e)[:200])}
            key = prefix + [[kind, arg]]
            obs_by_prefix[json.dumps(key)] = ob
            if "error" not in ob:
                step(key, child, ev, ft, nn)
    import json
    try:
        step([], trie, {}, None, 0)
    finally:
        if os.path.exists(path):
            os.remove(path)
    return {"obs": obs_by_prefix}


def _gate_tree(t):
    """pm4py tree -> nested tuple for spec/Gates.tla"""
    if t is None:
        return ("bad", [])
    if t.operator is None:
        return ("leaf", str(t.label)) if t.label is not None else ("bad", [])
    op = {"X": "xor", "+": "and", "O": "or"}.get(getattr(t.operator, "value", str(t.operator)), "bad")
    return (op, [_gate_tree(c) for c in t.children])


@register("gates")
def op_gates(case):
    from tel2puml.events import EventSet
    from tel2puml.logic_detection import calculate_logic_gates
    seed_uuid(case.get("uuid_seed", 0))
    outs = []
    for fam in case["families"]:
        try:
            t = calculate_logic_gates({EventSet(list(s)) for s in fam})
            outs.append({"tree": _gate_tree(t)})
        except Exception as e:  # noqa: BLE001
            outs.append({"error": "%s: %s" % (type(e).__name__, str(e)[:200])})
    return {"outs": outs}


@register("loops")
def op_loops(case):
    """build the event graph exactly as pv_to_puml_string does, call the real detect_loops and project the nesting"""
    from copy import deepcopy
    from tel2puml.events import create_graph_from_events
    from tel2puml.loop_detection.detect_loops import detect_loops
    from tel2puml.loop_detection.loop_types import LoopEvent
    from tel2puml.pv_to_puml.data_ingestion import update_and_create_events_from_clustered_pvevents
    from tel2puml.tel2puml_types import DUMMY_START_EVENT, DUMMY_END_EVENT
    seed_uuid(case.get("uuid_seed", 0))
    seqs = render_jobs(case["jobs"], case.get("present", {}))
    events = update_and_create_events_from_clustered_pvevents(seqs, add_dummy_start=True)
    g0 = create_graph_from_events(deepcopy(events).values())
    inp = {"types": sorted({n.event_type for n in g0.nodes}),
           "edges": sorted([a.event_type, b.event_type] for a, b in g0.edges)}

    def proj(g, top):
        nodes, subs = [], []
        for n in g.nodes:
            if isinstance(n, LoopEvent):
                kind = "loop"
            elif n.event_type == DUMMY_END_EVENT or (n.event_type == DUMMY_START_EVENT and not top) \
                    or str(n.event_type).startswith("DUMMY_BREAK"):
                kind = "dummy"
            else:
                kind = "event"
            nodes.append({"id": n.uid, "ty": n.event_type, "kind": kind})
            if isinstance(n, LoopEvent):
                subs.append({"loop": n.uid, "start": n.start_uid, "end": n.end_uid, "breaks": sorted(n.break_uids),
                             "g": proj(n.sub_graph, False)})
        return {"nodes": nodes, "edges": sorted([a.uid, b.uid] for a, b in g.edges), "subs": subs}
    nested = detect_loops(g0)
    return {"input": inp, "nest": proj(nested, True)}


@register("fieldmap")
def op_fieldmap(case):
    """run the real JSONDataSource on documents with a field mapping, in whole-file and one-JSON-per-line modes"""
    import json
    import os
    import shutil
    import tempfile
    from tel2puml.otel_to_pv.data_sources.json_data_source.json_config import JSONDataSourceConfig
    from tel2puml.otel_to_pv.data_sources.json_data_source.json_datasource import JSONDataSource
    outs = []
    base = tempfile.mkdtemp(prefix="verif-c13-", dir="/dev/shm" if os.path.isdir("/dev/shm") else None)
    try:
        for ci, c in enumerate(case["cases"]):
            res = {}
            # half of the cases are written with non-ASCII characters as they are (UTF-8), half with \\uXXXX escapes
            raw_ascii = ci % 2 == 0
            # file layouts: one pretty-printed file per document (whole-file mode); one line per document in one file
            # (per-line mode), the same followed by an empty line, the same without a final newline, and one
            # single-line file per document read in per-line mode
            for mode in c.get("modes", ("whole", "lines")):
                d = os.path.join(base, "%d_%s" % (ci, mode))
                os.makedirs(d)
                try:
                    if mode == "whole":
                        for k, doc in enumerate(c["docs"]):
                            with open(os.path.join(d, "f%03d.json" % k), "w", encoding="utf-8") as fh:
                                json.dump(doc, fh, indent=2, ensure_ascii=raw_ascii)
                    elif mode == "whole-nested":
                        # the directory is searched recursively: documents spread over nested sub-directories
                        for k, doc in enumerate(c["docs"]):
                            sub = os.path.join(d, *(["sub%d" % j for j in range(k % 3)]))
                            os.makedirs(sub, exist_ok=True)
                            with open(os.path.join(sub, "f%03d.json" % k), "w", encoding="utf-8") as fh:
                                json.dump(doc, fh, ensure_ascii=raw_ascii)
                    elif mode == "whole-filepath":
                        # a single file given by `filepath` instead of a directory (all documents of the case must
                        # then be one document: the harness only asks for this layout when there is exactly one)
                        with open(os.path.join(d, "only.json"), "w", encoding="utf-8") as fh:
                            json.dump(c["docs"][0], fh, indent=1, ensure_ascii=raw_ascii)
                    elif mode == "lines-files":
                        for k, doc in enumerate(c["docs"]):
                            with open(os.path.join(d, "f%03d.json" % k), "w", encoding="utf-8") as fh:
                                fh.write(json.dumps(doc, ensure_ascii=raw_ascii) + "\n")
                    else:
                        text = "\n".join(json.dumps(doc, ensure_ascii=raw_ascii) for doc in c["docs"])
                        text += {"lines": "\n", "lines-blank-end": "\n\n", "lines-no-newline": ""}[mode]
                        with open(os.path.join(d, "all.jsonl"), "w", encoding="utf-8") as fh:
                            fh.write(text)
                    cfg = JSONDataSourceConfig(filepath=os.path.join(d, "only.json") if mode == "whole-filepath" else None,
                                               dirpath=None if mode == "whole-filepath" else d,
                                               json_per_line=not mode.startswith("whole"), field_mapping=c["field_mapping"])
                    evs = [e.model_dump() for e in JSONDataSource(cfg)]
                    res[mode] = {"events": evs}
                except Exception as e:  # noqa: BLE001
                    res[mode] = {"error": "%s: %s" % (type(e).__name__, str(e)[:300])}
            outs.append(res)
    finally:
        shutil.rmtree(base, ignore_errors=True)
    return {"outs": outs}


@register("pv_stream")
def op_pv_stream(case):
    """the in-memory PV stream of otel_to_pv for a configuration file (a fresh in-memory database)"""
    import yaml
    from tel2puml.otel_to_pv.config import IngestDataConfig
    from tel2puml.otel_to_pv.otel_to_pv import otel_to_pv
    with open(case["config"]) as fh:
        cfg = yaml.safe_load(fh)
    cfg["data_holders"]["sql"]["db_uri"] = "sqlite:///:memory:"
    config = IngestDataConfig(**cfg)
    out = []
    for name, streams in otel_to_pv(config, ingest_data=True):
        for stream in streams:
            out.append({"name": name, "events": [dict(e) for e in stream]})
    return {"jobs": out}


@register("pv_load")
def op_pv_load(case):
    """what pv2puml loads from saved job files (with the mapping configuration)"""
    import os
    import yaml
    from tel2puml.pv_to_puml.pv_to_puml import pv_files_to_pv_streams
    from tel2puml.tel2puml_types import PVEventMappingConfig
    mc = PVEventMappingConfig()
    if case.get("mapping"):
        with open(case["mapping"]) as fh:
            mc = PVEventMappingConfig(**yaml.safe_load(fh))
    out = []
    for wf in sorted(os.listdir(case["dir"])):
        d = os.path.join(case["dir"], wf)
        if not os.path.isdir(d):
            continue
        files = sorted(os.path.join(d, f) for f in os.listdir(d))
        for name, jobs in pv_files_to_pv_streams(files, wf, group_by_job_id=False, mapping_config=mc):
            for job in jobs:
                out.append({"name": name, "events": [dict(e) for e in job]})
    return {"jobs": out}
