"""Operations the worker can perform on the real otel2puml code (imported lazily)."""
import random
import uuid


class ImplError(Exception):
    """raised by an op when the implementation returned something structurally unusable"""


def warm():
    """import the heavy modules before the first case is timed"""
    import tel2puml.pv_to_puml.pv_to_puml  # noqa: F401


def seed_uuid(seed):
    """Replace uuid4 as imported by name into the learner's modules by a seeded generator, so
    that container iteration orders driven by uuid hashes are reproducible from (hash seed, uuid seed)."""
    rnd = random.Random(seed)

    def uuid4():
        return uuid.UUID(int=rnd.getrandbits(128), version=4)
    import tel2puml.events as ev
    import tel2puml.logic_detection as ld
    import tel2puml.pv_to_puml.walk_puml_graph.node as nd
    for mod in (ev, ld, nd):
        if hasattr(mod, "uuid4"):
            mod.uuid4 = uuid4
    return rnd


def render_jobs(jobs, present):
    """jobs: [[ [id, ty, [pv ids]] ...] ...]  ->  list of lists of PVEvent dicts.
    present: {pseed, shuffle_jobs, shuffle_events, dup, dup_mode, ts_shift, job_name}"""
    rnd = random.Random(present.get("pseed", 0))

    def uid():
        return str(uuid.UUID(int=rnd.getrandbits(128), version=4))
    shift = int(present.get("ts_shift", 0))
    ts = "2023-09-%02dT10:%02d:06.059959Z" % (1 + shift % 28, shift % 60)
    name = present.get("job_name", "j")
    seqs = []

    def one(job, ids=None, jid=None):
        jid = jid or uid()
        ids = ids or {e[0]: uid() for e in job}
        evs = [dict(jobId=jid, jobName=name, eventType=e[1], eventId=ids[e[0]], timestamp=ts,
                    applicationName="app", previousEventIds=[ids[p] for p in sorted(e[2])]) for e in job]
        return evs, ids, jid
    rendered = []
    for job in jobs:
        rendered.append(one(job))
    seqs = [r[0] for r in rendered]
    dup = present.get("dup")
    if dup is not None and jobs:
        k = dup % len(jobs)
        if present.get("dup_mode", "fresh") == "same_ids":
            seqs.append([dict(e) for e in rendered[k][0]])
        else:
            seqs.append(one(jobs[k])[0])
    if present.get("shuffle_events"):
        for s in seqs:
            rnd.shuffle(s)
    if present.get("shuffle_jobs"):
        rnd.shuffle(seqs)
    return seqs


def op_learn(case):
    from tel2puml.pv_to_puml.pv_to_puml import pv_to_puml_string
    seed_uuid(case.get("uuid_seed", 0))
    seqs = render_jobs(case["jobs"], case.get("present", {}))
    text = pv_to_puml_string(seqs, case.get("present", {}).get("job_name", "j"))
    if not isinstance(text, str):
        raise ImplError("pv_to_puml_string returned %r" % type(text))
    return {"text": text}


OPS = {"learn": op_learn}


def dispatch(case):
    return OPS[case["op"]](case)


def register(name):
    def deco(fn):
        OPS[name] = fn
        return fn
    return deco


@register("time_n2p")
def op_time_n2p(case):
    from tel2puml.utils import unix_nano_to_pv_string
    out = []
    for x in case["xs"]:
        try:
            out.append(unix_nano_to_pv_string(x))
        except Exception as e:  # noqa: BLE001
            out.append({"error": repr(e)})
    return {"out": out}


@register("time_p2n")
def op_time_p2n(case):
    from tel2puml.pv_to_tel import convert_timestamp_to_unix_nano
    from tel2puml.utils import unix_nano_to_pv_string
    out = []
    for p in case["ps"]:
        try:
            x = convert_timestamp_to_unix_nano(p)
            out.append([x, unix_nano_to_pv_string(x)])
        except Exception as e:  # noqa: BLE001
            out.append([{"error": repr(e)}, None])
    return {"out": out}


@register("sequence")
def op_sequence(case):
    """run the real sequencer on call-tree cases; returns per case the emitted PV job (or the error)"""
    from tel2puml.otel_to_pv.otel_to_pv_types import OTelEvent, OTelEventTypeMap
    from tel2puml.otel_to_pv.sequence_otel import sequence_otel_job_id_streams
    t0, mn = 1_700_000_000_000_000_000, 60_000_000_000
    rnd = random.Random(case.get("seed", 0))
    outs = []
    for c in case["cases"]:
        n = c["n"]
        kids = {i: [] for i in range(1, n + 1)}
        for i in range(2, n + 1):
            kids[c["par"][i - 1]].append(i)
        evs = []
        for i in range(1, n + 1):
            ch = ["s%d" % k for k in kids[i]]
            rnd.shuffle(ch)
            evs.append(OTelEvent(job_name=c.get("name", "wf"), job_id=c.get("job", "job-1"), event_type=c["ty"][i - 1],
                                 event_id="s%d" % i, start_timestamp=t0 + c["s"][i - 1] * mn,
                                 end_timestamp=t0 + c["e"][i - 1] * mn, application_name=c.get("app", "app-x"),
                                 parent_event_id=None if i == 1 else "s%d" % c["par"][i - 1], child_event_ids=ch))
        rnd.shuffle(evs)
        grp = {}
        for p, ct, g in c["grp"]:
            grp.setdefault(p, {})[ct] = g
        ren = {r["from"]: OTelEventTypeMap(mapped_event_type=r["to"], child_event_types=set(r["kids"])) for r in c["ren"]}
        try:
            jobs = list(sequence_otel_job_id_streams([evs], async_flag=c["async"], event_to_async_group_map=grp or None,
                                                     event_types_map_information=ren or None))
            pv = [dict(e) for j in jobs for e in j]
            outs.append({"pv": pv, "njobs": len(jobs)})
        except Exception as e:  # noqa: BLE001
            outs.append({"error": "%s: %s" % (type(e).__name__, str(e)[:200])})
    return {"outs": outs}
