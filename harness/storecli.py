"""Run histories through the real command line (python -m tel2puml otel2pv -c config [-ni] [-ug] -se): used by C15
(repeatability of the flags) and C09 (the -ug flag selects one trace per shape class)."""
import store

CLI_HISTORIES = [
    [(1, 0), (0, 0), (0, 1), (1, 0), (1, 1)],
    [(1, 1), (0, 1), (1, 1), (0, 0)],
    [(1, 0), (1, 0), (0, 1)],
]


def cli_history(args):
    """one history through the real command line: python -m tel2puml otel2pv -c config [-ni] [-ug] -se, separate
    processes over one sqlite file; every run saves its PV sequences to its own directory"""
    import json as _json
    import os
    import random
    import pipeline
    import store_runner
    k, seed, hist, base, tag = args
    rnd = random.Random(repr((tag, seed, k)))
    d = os.path.join(base, "h%d" % k)
    os.makedirs(d)
    docs = pipeline.dataset(rnd)
    pipeline.write_case(d, docs, k % 2 == 1, None)
    db = os.path.join(d, "dbA.sqlite")
    lines = []
    for ri, (ing, ug) in enumerate(hist):
        out = os.path.join(d, "pv%d" % ri)
        flags = ([] if ing else ["-ni"]) + (["-ug"] if ug else []) + ["-se"]
        lines.append({"op": "open", "run": ri, "ing": bool(ing), "ug": bool(ug),
                      "post": dict(store_runner.snapshot(db), npend=0, status="ok")})
        r = pipeline.cli(["-o", out, "otel2pv", "-c", os.path.join(d, "configA.yaml")] + flags, d)
        snap = dict(store_runner.snapshot(db), npend=0)
        if r["rc"] == 0:
            pv = []
            for wf, evs in pipeline.read_files(out):
                pv.append({"name": wf, "evs": [{"eid": e["eventId"], "ty": e["eventType"], "job": e["jobId"], "jname": e["jobName"],
                                                 "app": e["applicationName"], "ts": e["timestamp"],
                                                 "prev": sorted(e.get("previousEventIds", []))} for e in evs]})
            sel = sorted({(p["name"], p["evs"][0]["job"]) for p in pv if p["evs"]}) if ug else None
            if ug:
                # what the run selected, as far as the command line shows it: the traces it saved
                lines.append({"op": "ug", "run": ri, "sel": [list(x) for x in sel], "post": dict(snap, status="ok")})
            lines.append({"op": "stream", "run": ri, "outseq": [], "pv": pv, "post": dict(snap, status="ok")})
            lines.append({"op": "end", "run": ri, "post": dict(snap, status="ok")})
        else:
            lines.append({"op": "end", "run": ri, "post": dict(snap, status="crashed"), "error": r["exception"]})
    scn = {"B": 7, "buf": 0, "cli": True, "runs": [{"ing": bool(i), "ug": bool(u), "se": True, "spans": []} for i, u in hist],
           "documents": docs}
    return scn, lines


def cli_family(chk, tier, seed, stats, clauses, tag):
    import os
    import shutil
    import tempfile
    from concurrent.futures import ThreadPoolExecutor
    import learner
    n = 6 if tier == "quick" else 30
    base = tempfile.mkdtemp(prefix="c15cli-", dir=learner.WORK if os.path.isdir(learner.WORK) else None)
    try:
        args = [(k, seed, CLI_HISTORIES[k % len(CLI_HISTORIES)], base, tag) for k in range(n)]
        with ThreadPoolExecutor(max_workers=6) as ex:
            res = list(ex.map(cli_history, args))
    finally:
        shutil.rmtree(base, ignore_errors=True)
    scns, logs = [r[0] for r in res], [r[1] for r in res]
    bad, _drift = store.validate(scns, logs, stats=stats, conformance=False)
    for scn, lg, b in zip(scns, logs, bad):
        key = "cli history %s" % [("ingest" if r["ing"] else "-ni") + (" -ug" if r["ug"] else "") for r in scn["runs"]]
        mine = [(c, ln) for c, ln in b if c in clauses]
        if mine:
            c, ln = mine[0]
            chk.violation(key, "cli:" + c, {"history": scn["runs"], "clause": c, "line": {k: v for k, v in lg[ln - 1].items() if k != "pv"},
                                            "documents": scn["documents"][:3]})
        for d in lg:
            if "C15all" in clauses and d["op"] == "end" and d["post"]["status"] == "ok" and scn["runs"][d["run"]]["ing"] \
                    and not d["post"]["nodes"]:
                chk.violation(key, "cli:ingest-flag-ignored", {"history": scn["runs"], "run": d["run"]})
                break
    return len(scns), sum(len(s["runs"]) for s in scns)


