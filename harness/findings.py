"""Structural predicates used by known_findings.json matchers (narrow classes of definitions
that one diagnosed root cause hits; see DESIGN 6)."""

PREDICATES = {}


def predicate(fn):
    PREDICATES[fn.__name__] = fn
    return fn
