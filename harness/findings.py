"""Structural predicates used by known_findings.json matchers: narrow classes of definitions that one diagnosed
root cause hits (DESIGN section 6).  A definition is the harness AST: ("seq", [items]), ("ev", name),
("and"|"or"|"xor", [branch seqs]), ("loop", body seq), ("break",), ("detach",)."""

PREDICATES = {}
RULES = {}


def predicate(fn):
    PREDICATES[fn.__name__] = fn
    return fn


def rule(fn):
    RULES[fn.__name__] = fn
    return fn


def _walk(n):
    yield n
    k = n[0]
    if k == "seq":
        for c in n[1]:
            yield from _walk(c)
    elif k == "loop":
        yield from _walk(n[1])
    elif k in ("and", "or", "xor"):
        for b in n[1]:
            yield from _walk(b)


def _break_branches(loop):
    """break branches (lists of items before the break) of XORs that belong to this loop (not to an inner loop)"""
    out = []

    def rec(n):
        k = n[0]
        if k == "seq":
            for c in n[1]:
                rec(c)
        elif k in ("and", "or", "xor"):
            for b in n[1]:
                if b[1] and b[1][-1][0] == "break":
                    out.append(b[1][:-1])
                rec(b)
        # inner loops own their breaks
    rec(loop[1])
    return out


def _has_break(loop):
    return bool(_break_branches(loop))


@predicate
def jobending_loop_long_break(d):
    """the top-level sequence ends with a loop that has a break branch of at least two events"""
    if d[0] != "seq" or not d[1] or d[1][-1][0] != "loop":
        return False
    return any(len(b) >= 2 for b in _break_branches(d[1][-1]))


@predicate
def loop_with_break_inside_loop(d):
    """some loop contains, at any depth of its body, another loop that has a break"""
    for n in _walk(d):
        if n[0] == "loop":
            for m in _walk(n[1]):
                if m[0] == "loop" and _has_break(m):
                    return True
    return False


@rule
def rejected_jobs_exit_the_final_loop_normally(d, jobs, ctx):
    """every rejected job ends with an event that is not the last event of a long break branch of the final loop"""
    if jobs is None:
        return False
    tails = {b[-1][1] for b in _break_branches(d[1][-1]) if len(b) >= 2 and b[-1][0] == "ev"}
    for job in jobs:
        ids_with_succ = {p for _i, _t, pv in job for p in pv}
        sinks = {t for i, t, _pv in job if i not in ids_with_succ}
        if sinks & tails:
            return False
    return True


def _count(n, kind):
    return sum(1 for m in _walk(n) if m[0] == kind)


@rule
def unmerged_fork_tail_duplicated(d, jobs, ctx):
    """every failing learned diagram left a fork unmerged: the continuation was copied into the branches and each copy
    ends in a detach the source does not have (ctx["learned"]: the learned ASTs of all failing variants)"""
    learned = ctx.get("learned") or []
    return bool(learned) and all(_count(a, "detach") > _count(d, "detach") for a in learned)


@predicate
def loop_body_ends_in_fork(d):
    """some loop's body ends (in tail position, i.e. also through the branches of a final XOR) with an AND/OR fork"""
    return any(n[0] == "loop" and any(t[0] in ("and", "or") for t in _tails_xor(n[1])) for n in _walk(d))


@predicate
def loop_ending_in_fork_ends_and_branch(d):
    """some AND fork has a branch whose last item is a loop whose body ends (tail position) with an AND/OR fork"""
    for n in _walk(d):
        if n[0] == "and":
            for b in n[1]:
                if b[1] and b[1][-1][0] == "loop" and any(t[0] in ("and", "or") for t in _tails_xor(b[1][-1][1])):
                    return True
    return False


def _tails(seq):
    """items in tail position of a sequence: its last item and, through XOR/AND/OR, the tails of the branches"""
    if not seq[1]:
        return []
    last = seq[1][-1]
    if last[0] in ("xor", "and", "or"):
        out = []
        for b in last[1]:
            out.extend(_tails(b))
        return out
    return [last]


@predicate
def loop_with_break_ends_enclosing_loop_body(d):
    """some loop's body ends (in tail position) with another loop that has a break, or with a loop whose own body ends
    that way"""
    def ends_with_breaking_loop(body):
        for it in _tails(body):
            if it[0] == "loop" and (_has_break(it) or ends_with_breaking_loop(it[1])):
                return True
        return False
    return any(n[0] == "loop" and ends_with_breaking_loop(n[1]) for n in _walk(d))


def _tails_xor(seq):
    """items in tail position of a sequence, looking through a final XOR only (an AND/OR fork is itself a tail)"""
    if not seq[1]:
        return []
    last = seq[1][-1]
    if last[0] == "xor":
        out = []
        for b in last[1]:
            out.extend(_tails_xor(b))
        return out
    return [last]
