"""Shared engine of the learner checks (C01, C02, C03, C05, C04, C07): case lists, the
TLC-generate -> learn -> parse -> TLC-validate pipeline."""
from __future__ import annotations

import glob
import os
import random

import fragment
import jobdef
import learner
import puml

REPO = learner.REPO
CORPUS_DIR = os.path.join(REPO, "end-to-end-pumls")


def corpus_defs():
    """the 63 corpus definitions: no branch counts, not expected upstream to yield them"""
    out = []
    for f in sorted(glob.glob(os.path.join(CORPUS_DIR, "**", "*.puml"), recursive=True)):
        txt = open(f).read()
        if "BCNT" in txt or "multiple_same_event_AND" in os.path.basename(f):
            continue
        out.append(("corpus:" + os.path.relpath(f, CORPUS_DIR), puml.parse(txt)))
    return out


def f_defs(max_events, min_events=1):
    return [("F:" + puml.to_text(d), d) for d in fragment.enumerate_F(max_events, min_events)]


def triple_defs():
    """the systematic depth-3 members of F (fragment.nesting_triples)"""
    return [("F:" + puml.to_text(d), d) for d in fragment.nesting_triples()]


def fplus_defs(max_events):
    return [("F+:" + puml.to_text(d), d) for d in fragment.enumerate_Fplus(max_events)]


def sampled_defs(n, seed, min_events=6, max_events=14, max_jobs=400, K=2):
    """seeded random members of F with min_events..max_events events and at most max_jobs (estimated) jobs"""
    out, seen, s = [], set(), seed * 1000003
    tries = 0
    while len(out) < n and tries < n * 50:
        tries += 1
        s += 1
        d = fragment.sample_F(s, maxev=max_events)
        ne = len(puml.event_list(d))
        if ne < min_events or ne > max_events + 4:
            continue
        if puml.njobs_estimate(d, K) > max_jobs:
            continue
        t = puml.to_text(d)
        if t in seen:
            continue
        seen.add(t)
        out.append(("F:" + t, d))
    return out


def presentation(seed, i):
    """i-th presentation of a case: 0 = identity; others = seeded shuffles of jobs and events, fresh ids"""
    if i == 0:
        return {"pseed": seed, "shuffle_jobs": False, "shuffle_events": False}
    return {"pseed": seed * 7919 + i, "shuffle_jobs": True, "shuffle_events": True, "ts_shift": i}


def learn_cases(named_defs, jobs_by_def, presentations, uuid_seed=0, tag=""):
    """build worker cases: one per (definition, presentation)"""
    cases = []
    for di, ((name, _d), jobs) in enumerate(zip(named_defs, jobs_by_def)):
        for pi, pres in enumerate(presentations):
            cases.append({"cid": "%s%d.%d" % (tag, di, pi), "op": "learn", "di": di, "pi": pi,
                          "jobs": [jobdef.job_json(j) for j in jobs], "present": pres,
                          "uuid_seed": uuid_seed + pi})
    return cases


def parse_output(res):
    """worker result -> (AST or None, problem or None)"""
    if not res.get("ok"):
        return None, {"kind": res.get("kind", "exception"), "error": res.get("error"), "where": res.get("where")}
    try:
        return puml.parse(res["text"]), None
    except puml.PumlError as e:
        return None, {"kind": "unparsable", "error": str(e)}


def rng(seed, *salt):
    return random.Random(repr((seed,) + salt))


# ------------------------------------------------------------------ the pipeline
class LearnRun:
    """TLC generates Jobs_k(D) for every definition; the real learner is run on every
    (definition, k, presentation); outputs are parsed.  Attributes after run():
      named, defs, ks, jobs[k][di], records: list of dicts
        {di, k, pi, name, present, res (worker result), ast (D' or None), problem (or None)}"""

    def __init__(self, named, ks=(2,), presentations=None, seed=0, hashseed=0, max_jobs=None, timeout=120,
                 subsets=None):
        self.named = named
        self.defs = [d for _, d in named]
        self.ks = tuple(ks)
        self.presentations = presentations or [presentation(seed, 0)]
        self.seed, self.hashseed, self.timeout = seed, hashseed, timeout
        self.max_jobs = max_jobs
        self.subsets = subsets       # None | {"all_upto": n, "sampled": m}: also learn from proper subsets of Jobs_k(D)
        self.stats = jobdef.Stats()
        self.jobs = {}
        self.records = []
        self.skipped = []

    def run(self, coverage=True):
        for k in self.ks:
            # job sets far above the cap are not generated at all (they would be skipped anyway)
            cap = (self.max_jobs or 10 ** 6) * 3
            small = [di for di, d in enumerate(self.defs) if puml.njobs_estimate(d, k, 10 ** 7) <= cap]
            js, errs = jobdef.gen_jobs([self.defs[di] for di in small], k, stats=self.stats, coverage=coverage)
            self.jobs[k] = [[None] * (cap + 1)] * len(self.defs)          # placeholder: "over the cap"
            self.jobs[k] = list(self.jobs[k])
            for di, j, e in zip(small, js, errs):
                self.jobs[k][di] = j
                if e:
                    raise RuntimeError("source definition %s is ill-formed (break across a join)" % self.named[di][0])
        cases = []
        for k in self.ks:
            for di, (name, _d) in enumerate(self.named):
                js = self.jobs[k][di]
                if self.max_jobs and len(js) > self.max_jobs:
                    self.skipped.append((name, k, len(js)))
                    continue
                if k != self.ks[-1] and len(js) == len(self.jobs[self.ks[-1]][di]):
                    continue       # no loop: Jobs_k is the same set for every k
                for pi, pres in enumerate(self.presentations):
                    cases.append({"cid": "%d.%d.%d" % (di, k, pi), "op": "learn", "di": di, "k": k, "pi": pi,
                                  "jobs": [jobdef.job_json(j) for j in js], "present": pres, "sub": None,
                                  "uuid_seed": self.seed * 101 + pi, "timeout": self.timeout})
                run_ks = [kk for kk in self.ks if kk == self.ks[-1]
                          or len(self.jobs[kk][di]) != len(self.jobs[self.ks[-1]][di])]
                first_k = k == run_ks[0]
                subs, exhaustive = self._subsets(di, k, len(js), first_k)
                for si, sub in enumerate(subs):
                    pres = presentation(self.seed, 1 + si % 3) if si % 2 else self.presentations[0]
                    cases.append({"cid": "%d.%d.s%d" % (di, k, si), "op": "learn", "di": di, "k": k, "pi": 0,
                                  "jobs": [jobdef.job_json(js[i]) for i in sub], "present": pres, "sub": list(sub),
                                  "subkind": "subset" if exhaustive else "subset-sampled",
                                  "uuid_seed": self.seed * 101 + si, "timeout": self.timeout})
        res = learner.run_cases(cases, hashseed=self.hashseed)
        for c in cases:
            r = res[c["cid"]]
            ast, prob = parse_output(r)
            self.records.append({"di": c["di"], "k": c["k"], "pi": c["pi"], "name": self.named[c["di"]][0],
                                 "present": c["present"], "res": r, "ast": ast, "problem": prob, "sub": c["sub"],
                                 "subkind": c.get("subkind"),
                                 "uuid_seed": c["uuid_seed"]})
        return self

    def _subsets(self, di, k, n, first_k=True):
        """proper non-empty subsets of the job set (indices): all of them for small sets (at the smallest loop bound
        that is run for the definition), seeded samples otherwise.  Returns (subsets, exhaustive?)"""
        if not self.subsets or n < 2:
            return [], False
        import itertools
        det = self.subsets.get("deterministic_names")
        if n <= self.subsets.get("all_upto", 0) and first_k and (det is None or self.named[di][0] in det):
            return [c for m in range(1, n) for c in itertools.combinations(range(n), m)], True
        r = rng(self.seed, "subsets", self.named[di][0], k)
        out = set()
        for _ in range(self.subsets.get("sampled", 0)):
            m = r.randrange(1, n)
            out.add(tuple(sorted(r.sample(range(n), m))))
        return sorted(out), False

    def subset_digest(self, rec):
        """identifies the job subset a record was learned from, independently of job numbering"""
        import hashlib
        return hashlib.sha1(repr(sorted(jobdef.canon(j) for j in self.rec_jobs(rec))).encode()).hexdigest()[:10]

    def rec_jobs(self, rec):
        """the jobs a record was learned from"""
        js = self.jobs[rec["k"]][rec["di"]]
        return js if rec.get("sub") is None else [js[i] for i in rec["sub"]]

    def nontrivial(self):
        """distinct definitions with at least one fork or loop and at least two jobs at the largest k"""
        k = self.ks[-1]
        return sum(1 for di, d in enumerate(self.defs)
                   if len(self.jobs[k][di]) >= 2 and any(it[0] != "ev" for it in _items(d)))

    def sample(self, rec):
        return {"definition": puml.to_text(self.defs[rec["di"]]), "k": rec["k"], "presentation": rec["present"],
                "subset_of_job_set": rec.get("sub"),
                "jobs": [jobdef.job_json(j) for j in self.rec_jobs(rec)[:3]],
                "emitted": rec["res"].get("text"), "learned": puml.to_text(rec["ast"]) if rec["ast"] else None}


def _items(n):
    k = n[0]
    if k == "seq":
        for c in n[1]:
            yield c
            yield from _items(c)
    elif k == "loop":
        yield from _items(n[1])
    elif k in ("and", "or", "xor"):
        for b in n[1]:
            yield from _items(b)


def canon_ast(n):
    """branch-order-insensitive canonical form (used only to skip obviously equal pairs)"""
    k = n[0]
    if k == "seq":
        return ("seq", tuple(canon_ast(c) for c in n[1]))
    if k in ("ev", "break", "detach"):
        return tuple(n)
    if k == "loop":
        return ("loop", canon_ast(n[1]))
    return (k, tuple(sorted((canon_ast(b) for b in n[1]), key=repr)))


def parse_text(t):
    """inverse of puml.to_text"""
    pos = [0]

    def seq(stop):
        items = []
        while True:
            items.append(item())
            if pos[0] < len(t) and t[pos[0]] == ";":
                pos[0] += 1
                continue
            break
        return ("seq", items)

    def item():
        for kw, k in (("loop{", "loop"), ("AND(", "and"), ("OR(", "or"), ("XOR(", "xor")):
            if t.startswith(kw, pos[0]):
                pos[0] += len(kw)
                if k == "loop":
                    b = seq("}")
                    assert t[pos[0]] == "}"
                    pos[0] += 1
                    return ("loop", b)
                brs = [seq("|)")]
                while t[pos[0]] == "|":
                    pos[0] += 1
                    brs.append(seq("|)"))
                assert t[pos[0]] == ")"
                pos[0] += 1
                return (k, brs)
        j = pos[0]
        while j < len(t) and t[j] not in ";|)}":
            j += 1
        w = t[pos[0]:j]
        pos[0] = j
        if w == "break":
            return ("break",)
        if w == "detach":
            return ("detach",)
        return ("ev", w)
    r = seq("")
    assert pos[0] == len(t), t[pos[0]:]
    return r


def lang_compare(pairs, stats=None, K=2):
    """pairs: list of (astA, astB).  For each pair decide by TLC whether Jobs_K(A) and Jobs_K(B) are the same language
    at bound K: generation on both, then cross trace validation (loops unbounded in the acceptor).
    Returns a list of None (equal) or {"why", "job"}."""
    need = {}
    for a, b in pairs:
        for x in (a, b):
            need.setdefault(puml.to_text(x), x)
    keys = list(need)
    gj, _ge = jobdef.gen_jobs([need[k] for k in keys], K, stats=stats)
    jobs_of = {k: gj[i] for i, k in enumerate(keys)}
    alld = [need[k] for k in keys]
    pos = {k: i for i, k in enumerate(keys)}
    traces, owner = [], []
    for pi, (a, b) in enumerate(pairs):
        ka, kb = puml.to_text(a), puml.to_text(b)
        if canon_ast(a) == canon_ast(b):
            continue
        ca = {jobdef.canon(j) for j in jobs_of[ka]}
        cb = {jobdef.canon(j) for j in jobs_of[kb]}
        for j in jobs_of[ka]:
            if jobdef.canon(j) not in cb:
                traces.append((pos[kb], j))
                owner.append((pi, "job of the first diagram rejected by the second"))
        for j in jobs_of[kb]:
            if jobdef.canon(j) not in ca:
                traces.append((pos[ka], j))
                owner.append((pi, "job of the second diagram rejected by the first"))
    acc = jobdef.validate(alld, traces, stats=stats)
    out = [None] * len(pairs)
    for n, (pi, why) in enumerate(owner):
        if n not in acc and out[pi] is None:
            out[pi] = {"why": why, "job": jobdef.job_json(traces[n][1])}
    return out, len(traces)
