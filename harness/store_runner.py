"""Child-side driver of the real otel2pv store code (imports tel2puml).

Usage: python store_runner.py <cases.jsonl> <results.jsonl>
Each case is {"cid", "scn": scenario, "db": path of the sqlite file to use}; each *run* of a scenario is executed in a
forked child (a separate process per run, as in the CLI; find_unique_graphs can only be called once per process).
The result line is {"cid", "lines": [logged line, ...]} - one logged line per public call of the data holder,
recorded when the call returned or raised, with the table contents read back through an independent connection.

The real orchestration (tel2puml.otel_to_pv.otel_to_pv.otel_to_pv) is used; the harness only substitutes the data
source (an in-memory list of OTelEvents) and a logging subclass of SQLDataHolder through the public registries
DATASOURCES / DATAHOLDERS.
"""
import json
import logging
import os
import sqlite3
import sys
import traceback

logging.disable(logging.CRITICAL)
os.environ.setdefault("TQDM_DISABLE", "1")
sys.path.insert(0, os.path.dirname(os.path.abspath(__file__)))

T0 = 1_700_000_000_000_000_000
MIN = 60_000_000_000
NOPAR = "-"


# nanoseconds added to every timestamp of the current scenario: real span times are not multiples of 256 ns, so they are
# not exactly representable as floating-point numbers (scenario key "ns_offset"; the model keeps counting in grid units)
OFF = [0]


def to_ns(m):
    return T0 + OFF[0] + m * MIN


def from_ns(ns):
    q, r = divmod(ns - T0 - OFF[0], MIN)
    if r:
        raise ValueError("timestamp %d is not on the minute grid" % ns)
    return q


def snapshot(db):
    """table contents through an independent connection (committed data only)"""
    con = sqlite3.connect(db, timeout=30)
    try:
        cur = con.cursor()
        tabs = {r[0] for r in cur.execute("select name from sqlite_master where type='table'")}
        nodes, assoc, hashes = [], [], []
        if "nodes" in tabs:
            for r in cur.execute("select event_id, parent_event_id, job_id, job_name, event_type, start_timestamp, "
                                 "end_timestamp, application_name from nodes"):
                nodes.append({"eid": r[0], "par": r[1] if r[1] is not None else NOPAR, "job": r[2], "name": r[3],
                              "ty": r[4], "s": from_ns(r[5]), "e": from_ns(r[6]), "app": r[7]})
        if "NODE_ASSOCIATION" in tabs:
            assoc = [[r[0], r[1]] for r in cur.execute("select parent_id, child_id from NODE_ASSOCIATION")]
        if "job_hashes" in tabs:
            hashes = [{"job": r[0], "name": r[1], "h": r[2]} for r in
                      cur.execute("select job_id, job_name, job_hash from job_hashes")]
        return {"nodes": nodes, "assoc": assoc, "hashes": hashes}
    finally:
        con.close()


def classify(exc):
    if isinstance(exc, ValueError) and "time buffer is too large" in str(exc):
        return "raised"
    return "crashed"


def run_once(scn, ri, db, emit, seq_cfg=None):
    """one process run: the real otel_to_pv on the scenario's configuration"""
    from tel2puml.otel_to_pv import ingest_otel_data as iod
    from tel2puml.otel_to_pv.config import IngestDataConfig
    from tel2puml.otel_to_pv.data_holders import SQLDataHolder
    from tel2puml.otel_to_pv.otel_to_pv import otel_to_pv
    from tel2puml.otel_to_pv.otel_to_pv_types import OTelEvent

    run = scn["runs"][ri]
    state = {"holder": None}

    def post(status="ok"):
        p = snapshot(db)
        h = state["holder"]
        p["npend"] = len(h.node_models_to_save) if h is not None else 0
        p["status"] = status
        return p

    def line(op, status="ok", **kw):
        d = {"op": op, "run": ri, "post": post(status)}
        d.update(kw)
        emit(d)

    def to_event(sp):
        return OTelEvent(job_name=sp["name"], job_id=sp["job"], event_type=sp["ty"], event_id=sp["eid"],
                         start_timestamp=to_ns(sp["s"]), end_timestamp=to_ns(sp["e"]),
                         application_name=sp.get("app", "app"),
                         parent_event_id=None if sp["par"] == NOPAR else sp["par"], child_event_ids=None)

    class Source:
        def __init__(self, _config):
            pass

        def __iter__(self):
            return iter([to_event(sp) for sp in run.get("spans", [])])

    class Holder(SQLDataHolder):
        def __init__(self, config):
            super().__init__(config)
            state["holder"] = self

        _assoc_calls = 0

        def batch_insert_node_associations(self):
            # crash-point exploration: the process is killed between the node commit and the association commit
            Holder._assoc_calls += 1
            if run.get("kill_before_assoc_commit") == Holder._assoc_calls:
                os._exit(17)
            return super().batch_insert_node_associations()

        def save_data(self, otel_event):
            sp = {"eid": otel_event.event_id, "par": otel_event.parent_event_id or NOPAR, "job": otel_event.job_id,
                  "name": otel_event.job_name, "ty": otel_event.event_type, "s": from_ns(otel_event.start_timestamp),
                  "e": from_ns(otel_event.end_timestamp), "app": otel_event.application_name}
            try:
                super().save_data(otel_event)
            except BaseException as e:
                line("save", classify(e), span=sp, error=repr(e)[:200])
                raise
            line("save", span=sp)

        def __exit__(self, exc_type, exc_val, exc_tb):
            if exc_type is not None:
                return super().__exit__(exc_type, exc_val, exc_tb)
            try:
                super().__exit__(exc_type, exc_val, exc_tb)
            except BaseException as e:
                line("exit", classify(e), error=repr(e)[:200])
                raise
            line("exit")

        def _logged(self, op, fn):
            try:
                r = fn()
            except BaseException as e:
                line(op, classify(e), error=repr(e)[:200])
                raise
            line(op)
            return r

        def remove_inconsistent_jobs(self):
            return self._logged("clean1", super().remove_inconsistent_jobs)

        def remove_jobs_outside_of_time_window(self):
            return self._logged("clean2", super().remove_jobs_outside_of_time_window)

        def update_job_names_by_root_span(self):
            return self._logged("clean3", super().update_job_names_by_root_span)

        def find_unique_graphs(self):
            if run.get("filter") is not None:
                # an arbitrary name -> trace-id filter supplied by the scenario instead of the unique-graph selection
                r = {}
                for n, j in run["filter"]:
                    r.setdefault(n, set()).add(j)
                line("filter", sel=sorted([n, j] for n, js in r.items() for j in js))
                return r
            try:
                r = super().find_unique_graphs()
            except BaseException as e:
                line("ug", classify(e), sel=[], error=repr(e)[:200])
                raise
            line("ug", sel=sorted([n, j] for n, js in r.items() for j in js))
            return r

        def stream_data(self, job_name_to_job_ids_map=None, filter_job_names=None):
            outseq = []
            state["outseq"] = outseq
            for name, jobs in super().stream_data(job_name_to_job_ids_map, filter_job_names):
                rec = {"name": name, "jobs": []}
                outseq.append(rec)

                def tee_jobs(jobs=jobs, rec=rec):
                    for job in jobs:
                        jrec = {"job": None, "spans": []}
                        rec["jobs"].append(jrec)

                        def tee(job=job, jrec=jrec):
                            for ev in job:
                                jrec["job"] = ev.job_id if jrec["job"] is None else jrec["job"]
                                if ev.job_id != jrec["job"]:
                                    jrec["mixed"] = True
                                jrec["spans"].append({"eid": ev.event_id, "ch": sorted(ev.child_event_ids or []),
                                                      "name": ev.job_name, "par": ev.parent_event_id or NOPAR})
                                yield ev
                        yield tee()
                yield name, tee_jobs()

    cfg = {"data_sources": {"json": {"dirpath": os.path.dirname(db), "filepath": None, "json_per_line": False,
                                     "jq_query": "."}},
           "data_holders": {"sql": {"db_uri": "sqlite:///" + db, "batch_size": scn["B"], "time_buffer": scn["buf"]}},
           "ingest_data": {"data_source": "json", "data_holder": "sql"}}
    if seq_cfg or scn.get("sequencer"):
        cfg["sequencer"] = seq_cfg or scn["sequencer"]
    config = IngestDataConfig(**cfg)
    iod.DATASOURCES["json"] = Source
    iod.DATAHOLDERS["sql"] = Holder
    emit({"op": "open", "run": ri, "ing": bool(run["ing"]), "ug": bool(run["ug"]), "post": post()})
    pv = []
    try:
        if run.get("only_ingest"):
            iod.ingest_data_into_dataholder(config)
            line("end")
            return
        if run.get("phases"):
            # direct use of the public data-holder interface, one object throughout: ingest, stream, ingest more,
            # stream again (every stream is sequenced the way otel_to_pv does it)
            from tel2puml.otel_to_pv.sequence_otel import sequence_otel_job_id_streams
            holder = iod.fetch_data_holder(config)
            for k, spans in enumerate(run["phases"]):
                if k:
                    line("reenter")
                with holder:
                    for sp in spans:
                        holder.save_data(to_event(sp))
                pv = []
                names = run.get("names") if k == len(run["phases"]) - 1 else None
                if names:
                    # stream_data's second parameter, a set of workflow names: logged as the pair filter it amounts to
                    line("filter", sel=sorted({(n["name"], n["job"]) for n in snapshot(db)["nodes"] if n["name"] in names}))
                for name, job_streams in holder.stream_data(None, set(names) if names else None):
                    for stream in sequence_otel_job_id_streams(job_streams, async_flag=False):
                        pv.append({"name": name, "evs": [
                            {"eid": e["eventId"], "ty": e["eventType"], "job": e["jobId"], "jname": e["jobName"],
                             "app": e["applicationName"], "ts": e["timestamp"],
                             "prev": sorted(e.get("previousEventIds", []))} for e in stream]})
                line("stream", outseq=state.get("outseq", []), pv=pv)
            line("end")
            return
        outdir = None
        if run.get("se"):
            outdir = db + ".out%d" % ri
            os.makedirs(outdir, exist_ok=True)
        gen = otel_to_pv(config, ingest_data=bool(run["ing"]), find_unique_graphs=bool(run["ug"]),
                         save_events=bool(run.get("se")), output_file_directory=outdir or ".")
        if outdir is not None:
            import glob
            import shutil
            for extra in gen:       # the generator has been consumed by the save path; anything left is reported
                pv.append({"name": "(unsaved) " + str(extra[0]), "evs": []})
            for d in sorted(os.listdir(outdir)):
                for f in sorted(glob.glob(os.path.join(outdir, d, "pv_event_sequence_*.json"))):
                    with open(f) as fh:
                        evs = json.load(fh)
                    pv.append({"name": d, "evs": [
                        {"eid": e["eventId"], "ty": e["eventType"], "job": e["jobId"], "jname": e["jobName"],
                         "app": e["applicationName"], "ts": e["timestamp"],
                         "prev": sorted(e.get("previousEventIds", []))} for e in evs]})
            shutil.rmtree(outdir, ignore_errors=True)
            gen = ()
        for name, streams in gen:
            for stream in streams:
                evs = list(stream)
                pv.append({"name": name, "evs": [
                    {"eid": e["eventId"], "ty": e["eventType"], "job": e["jobId"], "jname": e["jobName"],
                     "app": e["applicationName"], "ts": e["timestamp"],
                     "prev": sorted(e.get("previousEventIds", []))} for e in evs]})
        line("stream", outseq=state.get("outseq", []), pv=pv)
        line("end")
    except BaseException as e:  # noqa: BLE001 (the code under test may raise anything)
        st = classify(e)
        tb = traceback.extract_tb(e.__traceback__)
        where = next(("%s:%d" % (os.path.basename(f.filename), f.lineno) for f in reversed(tb)
                      if "/harness/" not in f.filename), "")
        line("end", st, error=repr(e)[:300], where=where)


def run_scenario(scn, db):
    """all runs of a scenario, each in a forked child; returns the logged lines"""
    OFF[0] = int(scn.get("ns_offset", 0))
    lines = []
    for ri in range(len(scn["runs"])):
        r, w = os.pipe()
        pid = os.fork()
        if pid == 0:
            os.close(r)
            code = 0
            try:
                with os.fdopen(w, "w") as out:
                    run_once(scn, ri, db, lambda d: out.write(json.dumps(d) + "\n"))
            except BaseException:  # noqa: BLE001
                traceback.print_exc()
                code = 3
            os._exit(code)
        os.close(w)
        with os.fdopen(r) as inp:
            for ln in inp:
                lines.append(json.loads(ln))
        _, st = os.waitpid(pid, 0)
        if os.WIFEXITED(st) and os.WEXITSTATUS(st) == 17:
            lines.append({"op": "killed", "run": ri, "post": dict(snapshot(db), npend=0, status="killed")})
            continue
        if st != 0:
            lines.append({"op": "harness-error", "run": ri, "status": st})
            break
    return lines


def main():
    cases_path, res_path = sys.argv[1], sys.argv[2]
    import tel2puml.otel_to_pv.otel_to_pv  # noqa: F401  (warm the parent; children inherit the imports)
    with open(cases_path) as fh, open(res_path, "a") as out:
        for ln in fh:
            case = json.loads(ln)
            db = case["db"]
            for suffix in ("", "-journal", "-wal", "-shm"):
                if os.path.exists(db + suffix):
                    os.remove(db + suffix)
            try:
                lines = run_scenario(case["scn"], db)
                out.write(json.dumps({"cid": case["cid"], "lines": lines}) + "\n")
            except Exception as e:  # noqa: BLE001
                out.write(json.dumps({"cid": case["cid"], "error": repr(e)}) + "\n")
            out.flush()
            for suffix in ("", "-journal", "-wal", "-shm"):
                if os.path.exists(db + suffix):
                    os.remove(db + suffix)


if __name__ == "__main__":
    main()
