from .event_solution import EventSolution
class GraphSolution:
    def __init__(self):
        self.start_events = {}
        self.end_events = {}
        self.events = {}
        self.event_dict_count = 0
    def add_event(self, event):
        self.parse_event_solution(event)
    def parse_event_solution(self, event):
        self.event_dict_count += 1
        if event.is_start:
            self.start_events[self.event_dict_count] = event
        if event.is_end:
            self.end_events[self.event_dict_count] = event
        self.events[self.event_dict_count] = event
    @classmethod
    def from_event_list(cls, event_list):
        gs = cls()
        tuples = {}
        for ev in event_list:
            prev = ev.get("previousEventIds", [])
            if isinstance(prev, str):
                prev = [prev]
            tuples[ev["eventId"]] = (EventSolution(meta_data={"EventType": ev["eventType"]}), prev)
        for es, prev in tuples.values():
            for p in prev:
                es.add_prev_event(tuples[p][0])
            es.add_to_previous_events()
        for es, _ in tuples.values():
            gs.parse_event_solution(es)
        return gs
