class EventSolution:
    def __init__(self, is_branch=False, is_break_point=False, meta_data=None, **kw):
        self.meta_data = meta_data if meta_data is not None else {}
        self.previous_events = []
        self.post_events = []
        self.is_branch = is_branch
        self.is_break_point = is_break_point
    @property
    def is_start(self):
        return len(self.previous_events) == 0
    @property
    def is_end(self):
        return len(self.post_events) == 0
    def add_prev_event(self, e):
        self.previous_events.append(e)
    def add_post_event(self, e):
        self.post_events.append(e)
    def add_to_post_events(self):
        for e in self.post_events:
            e.add_prev_event(self)
    def add_to_previous_events(self):
        for e in self.previous_events:
            e.add_post_event(self)
    def get_post_event_edge_tuples(self):
        return [(self, e) for e in self.post_events]
