"""Exploratory prototype (scratch): job-definition semantics, puml parser."""
import itertools, re

# AST: ("seq",[items]); items: ("ev",name) | ("and"|"or"|"xor",[seq,...]) | ("loop",seq) | ("break",) | ("detach",)
DEAD = None


def parse_puml(text):
    lines = [l.strip() for l in text.replace("@enduml@startuml", "@enduml\n@startuml").splitlines()]
    stack = []  # frames: [kind, branches(list of item-lists)]
    cur = []
    root = None
    for ln in lines:
        if not ln or ln.startswith("'") or ln.startswith("@") or ln.startswith("partition") or ln == "}" or ln.startswith("group") :
            continue
        if ln == "end group":
            root = ("seq", cur)
            break
        m = re.match(r"^(#\w+)?:(.*);\s*$", ln)
        if m:
            name = m.group(2).split(",")[0]
            cur.append(("ev", name))
            continue
        if ln in ("break",):
            cur.append(("break",)); continue
        if ln in ("kill", "detach"):
            cur.append(("detach",)); continue
        if ln.startswith("if ") or ln.startswith("switch"):
            stack.append(["xor", [], cur, ln.startswith("switch")]); cur = []
            continue
        if ln == "fork":
            stack.append(["and", [], cur, False]); cur = []; continue
        if ln == "split":
            stack.append(["or", [], cur, False]); cur = []; continue
        if ln.startswith("repeat while"):
            fr = stack.pop(); assert fr[0] == "loop", ln
            body = ("seq", cur); cur = fr[2]; cur.append(("loop", body)); continue
        if ln.startswith("repeat"):
            stack.append(["loop", [], cur, False]); cur = []; continue
        if ln.startswith("case"):
            fr = stack[-1]
            if fr[3] == "first" or fr[3] is True:
                # first case after switch: nothing accumulated yet
                if fr[3] is True:
                    fr[3] = "rest"; assert not cur; continue
            fr[1].append(("seq", cur)); cur = []; continue
        if ln.startswith("else") or ln in ("fork again", "split again"):
            stack[-1][1].append(("seq", cur)); cur = []; continue
        if ln in ("endif", "endswitch", "end fork", "end split", "end merge"):
            fr = stack.pop(); fr[1].append(("seq", cur)); cur = fr[2]
            cur.append((fr[0], fr[1])); continue
        raise ValueError("unparsed line: " + ln)
    assert root is not None and not stack
    return root


def to_text(n, ind=0):
    k = n[0]; p = "  " * ind
    if k == "seq":
        return "\n".join(to_text(c, ind) for c in n[1])
    if k == "ev": return p + n[1]
    if k in ("break", "detach"): return p + k.upper()
    if k == "loop": return p + "LOOP{\n" + to_text(n[1], ind + 1) + "\n" + p + "}"
    return p + k.upper() + "{\n" + ("\n" + p + " |\n").join(to_text(b, ind + 1) for b in n[1]) + "\n" + p + "}"


# ---------- generator ----------
class Gen:
    def __init__(self, K=2, kmin=1):
        self.K = K; self.kmin = kmin

    def run(self, root):
        """yield jobs: list of (iid, type, frozenset(prevs))"""
        out = []
        for evs, front, brk in self.ex(root, frozenset(), True, ()):
            out.append(evs)
        return out

    def ex(self, n, front, start, path):
        """front: frozenset of iids, or DEAD. start: True if nothing emitted yet (front may be empty).
        yields (events tuple, out_front, brk)"""
        k = n[0]
        if front is DEAD:
            yield ((), DEAD, False); return
        if k == "ev":
            iid = (n[1],) + path
            yield (((iid, n[1], front),), frozenset([iid]), False)
        elif k == "seq":
            def rec(i, front, acc):
                if i == len(n[1]) or front is DEAD:
                    yield (acc, front, False); return
                for evs, f2, brk in self.ex(n[1][i], front, start and not acc, path + (i,)):
                    if brk:
                        yield (acc + evs, f2, True)
                    else:
                        yield from rec(i + 1, f2, acc + evs)
            yield from rec(0, front, ())
        elif k == "break":
            yield ((), front, True)
        elif k == "detach":
            yield ((), DEAD, False)
        elif k == "xor":
            for bi, b in enumerate(n[1]):
                yield from self.ex(b, front, start, path + (bi,))
        elif k in ("and", "or"):
            idx = list(range(len(n[1])))
            subsets = [idx] if k == "and" else [list(s) for r in range(1, len(idx) + 1) for s in itertools.combinations(idx, r)]
            for S in subsets:
                per = [list(self.ex(n[1][bi], front, start, path + (bi,))) for bi in S]
                for combo in itertools.product(*per):
                    evs = (); fr = set(); alive = False; anybrk = False
                    for e, f, brk in combo:
                        evs += e
                        if brk: anybrk = True
                        if f is not DEAD:
                            alive = True; fr |= f
                    if anybrk:
                        raise ValueError("break under and/or")
                    yield (evs, frozenset(fr) if alive else DEAD, False)
        elif k == "loop":
            def it(j, front, acc):
                for evs, f2, brk in self.ex(n[1], front, False, path + (("it", j),)):
                    if brk:
                        yield (acc + evs, f2, False); continue
                    if f2 is DEAD:
                        yield (acc + evs, DEAD, False); continue
                    if j >= self.kmin:
                        yield (acc + evs, f2, False)
                    if j < self.K:
                        yield from it(j + 1, f2, acc + evs)
            yield from it(1, front, ())
        else:
            raise ValueError(k)


def canon(job):
    """canonical form up to iso (WL-ish signature bag)"""
    byid = {i: (t, p) for i, t, p in job}
    memo = {}
    def sig(i):
        if i not in memo:
            t, p = byid[i]
            memo[i] = (t, tuple(sorted(sig(x) for x in p)))
        return memo[i]
    return tuple(sorted(sig(i) for i in byid))


# ---------- acceptor ----------
def accepts(root, job, maxiter=None):
    byid = {i: (t, p) for i, t, p in job}
    allids = frozenset(byid)
    bytype = {}
    for i, (t, p) in byid.items():
        bytype.setdefault((t, p), []).append(i)
    N = len(job)

    def m(n, front, used):
        """yield (used', out_front, brk)"""
        k = n[0]
        if front is DEAD:
            yield (used, DEAD, False); return
        if k == "ev":
            for i in bytype.get((n[1], front), []):
                if i not in used:
                    yield (used | {i}, frozenset([i]), False)
        elif k == "seq":
            def rec(i, front, used):
                if i == len(n[1]) or front is DEAD:
                    yield (used, front, False); return
                for u2, f2, brk in m(n[1][i], front, used):
                    if brk: yield (u2, f2, True)
                    else: yield from rec(i + 1, f2, u2)
            yield from rec(0, front, used)
        elif k == "break": yield (used, front, True)
        elif k == "detach": yield (used, DEAD, False)
        elif k == "xor":
            for b in n[1]:
                yield from m(b, front, used)
        elif k in ("and", "or"):
            idx = list(range(len(n[1])))
            subsets = [idx] if k == "and" else [list(s) for r in range(1, len(idx) + 1) for s in itertools.combinations(idx, r)]
            for S in subsets:
                def rec(j, used, fr, alive):
                    if j == len(S):
                        yield (used, frozenset(fr) if alive else DEAD, False); return
                    for u2, f2, brk in m(n[1][S[j]], front, used):
                        if brk: continue  # ill-formed: reject
                        if f2 is DEAD: yield from rec(j + 1, u2, fr, alive)
                        else: yield from rec(j + 1, u2, fr | f2, True)
                yield from rec(0, used, frozenset(), False)
        elif k == "loop":
            def it(j, front, used):
                for u2, f2, brk in m(n[1], front, used):
                    if brk: yield (u2, f2, False); continue
                    if f2 is DEAD: yield (u2, DEAD, False); continue
                    yield (u2, f2, False)
                    if len(u2) > len(used) and len(u2) < N + 1:
                        yield from it(j + 1, f2, u2)
            yield from it(1, front, used)
    for used, f, brk in m(root, frozenset(), frozenset()):
        if used == allids and not brk:
            return True
    return False


def events_of(n):
    if n[0] == "ev": return {n[1]}
    if n[0] in ("break", "detach"): return set()
    if n[0] == "loop": return events_of(n[1])
    s = set()
    for c in n[1]: s |= events_of(c)
    return s
