"""Binding to spec/FieldMap.tla: OTel-shaped documents and field mappings in the documented forms (inputs), their
rendering as TLA+ values and as the configuration the real JSONDataSource reads; TLC computes the expected records."""
from __future__ import annotations

import json
import random
import re

import tlc

FIELDS = ["job_name", "job_id", "event_type", "event_id", "start_timestamp", "end_timestamp", "application_name",
          "parent_event_id"]
LEVELS = [["resource_spans"], ["scope_spans"], ["spans"]]
LEVEL_PREFIX = ["", "resource_spans.[].", "resource_spans.[].scope_spans.[].", "resource_spans.[].scope_spans.[].spans.[]."]
NUM_RE = re.compile(r"^-?\d+$")


# ------------------------------------------------------------------ JSON -> TLA+
def enc(s):
    """injective ASCII rendering of a text for the TLA+ data module (the specification only compares, joins and
    classifies texts, so any injective renaming of characters is sound): characters outside printable ASCII and the
    brace itself become {U+XXXX}"""
    return "".join(c if (32 <= ord(c) <= 126 and c != "{") else "{U+%04X}" % ord(c) for c in s)


def js_tla(x):
    if x is None:
        return '[t |-> "null"]'
    if isinstance(x, bool):
        raise ValueError("booleans are outside the generated documents")
    if isinstance(x, int):
        return '[t |-> "num", v |-> "%d"]' % x
    if isinstance(x, str):
        return '[t |-> "str", v |-> %s]' % tlc.tla_str(enc(x))
    if isinstance(x, list):
        return '[t |-> "arr", v |-> <<%s>>]' % ", ".join(js_tla(v) for v in x)
    if isinstance(x, dict):
        if not x:
            return '[t |-> "obj", v |-> <<>>]'
        return '[t |-> "obj", v |-> (%s)]' % " @@ ".join("%s :> %s" % (tlc.tla_str(enc(k)), js_tla(v)) for k, v in x.items())
    raise ValueError("no TLA value for %r" % (x,))


def cand_tla(c):
    return '[lv |-> %d, path |-> <<%s>>, kf |-> %s, kv |-> %s, vp |-> <<%s>>]' % (
        c["lv"], ", ".join(tlc.tla_str(k) for k in c["path"]), tlc.tla_str(c.get("kf", "")), tlc.tla_str(c.get("kv", "")),
        ", ".join(tlc.tla_str(k) for k in c.get("vp", [])))


def map_tla(m):
    fields = " @@ ".join('%s :> <<%s>>' % (tlc.tla_str(f), ", ".join(
        "<<" + ", ".join(cand_tla(c) for c in pos) + ">>" for pos in m[f])) for f in FIELDS)
    return '[levels |-> <<%s>>, fields |-> (%s)]' % (
        ", ".join("<<" + ", ".join(tlc.tla_str(k) for k in lv) + ">>" for lv in LEVELS), fields)


# ------------------------------------------------------------------ mapping -> field_mapping of the configuration file
def cand_paths(c):
    pre = LEVEL_PREFIX[c["lv"]]
    if c.get("kv"):
        return pre + ".".join(c["path"]) + ".[]." + c["kf"], c["kv"], ".".join(c["vp"])
    return pre + ".".join(c["path"]), None, None


FORMS = ("canonical", "explicit-null", "nested-single")


def to_field_mapping(m, form="canonical"):
    """the documented YAML structure (key_paths / key_value / value_paths with nested lists for priorities).
    Surface forms with the same documented meaning: "canonical" - a position with one candidate is a plain string and
    key_value / value_paths are left out when no position needs them; "explicit-null" - key_value / value_paths are
    always given, with null where a path needs none; "nested-single" - every position is an array, also when it
    holds a single candidate."""
    out = {}
    for f in FIELDS:
        kps, kvs, vps = [], [], []
        for pos in m[f]:
            trip = [cand_paths(c) for c in pos]
            if len(trip) == 1 and form != "nested-single":
                kps.append(trip[0][0])
                kvs.append(trip[0][1])
                vps.append(trip[0][2])
            else:
                kps.append([t[0] for t in trip])
                kvs.append([t[1] for t in trip])
                vps.append([t[2] for t in trip])
        spec = {"key_paths": kps, "value_type": "string"}
        if form != "canonical" or any(v is not None and v != [None] * len(v) if isinstance(v, list) else v is not None for v in kvs):
            spec["key_value"] = kvs
            spec["value_paths"] = vps
        out[f] = spec
    return out


# ------------------------------------------------------------------ generators
def plain(lv, *path):
    return {"lv": lv, "path": list(path)}


def lookup(lv, arr_path, kv, vp, kf="key"):
    return {"lv": lv, "path": list(arr_path), "kf": kf, "kv": kv, "vp": list(vp)}


def default_mapping():
    return {
        "job_name": [[lookup(1, ["resource", "attributes"], "service.name", ["value", "Value", "StringValue"])]],
        "job_id": [[plain(3, "trace_id")]],
        "event_type": [[plain(3, "name")], [plain(3, "not_here"),
                                           lookup(3, ["attributes"], "http.response", ["value", "Value", "IntValue"])]],
        "event_id": [[plain(3, "span_id")]],
        "start_timestamp": [[plain(3, "start_time_unix_nano")]],
        "end_timestamp": [[plain(3, "end_time_unix_nano")]],
        "application_name": [[plain(2, "scope", "name")]],
        "parent_event_id": [[plain(3, "parent_span_id")]],
    }


def random_mapping(rnd):
    m = default_mapping()
    m["job_name"] = rnd.choice([
        m["job_name"],
        [[plain(1, "resource", "name")]],
        [[plain(1, "resource", "name"), lookup(1, ["resource", "attributes"], "service.name", ["value", "Value", "StringValue"])]],
        [[lookup(1, ["resource", "attributes"], "service.name", ["value", "Value", "StringValue"])],
         [lookup(1, ["resource", "attributes"], "service.version", ["value", "Value", "StringValue"])]],
        [[plain(0, "header", "system")], [plain(1, "resource", "name")]],
    ])
    m["event_type"] = rnd.choice([
        m["event_type"],
        [[plain(3, "name")]],
        [[lookup(3, ["attributes"], "http.method", ["value", "Value", "StringValue"])]],
        [[plain(3, "name")], [lookup(3, ["attributes"], "http.method", ["value", "Value", "StringValue"])],
         [lookup(3, ["attributes"], "http.response", ["value", "Value", "IntValue"])]],
        [[lookup(3, ["attributes"], "http.method", ["value", "Value", "StringValue"]), plain(3, "name")]],
    ])
    m["application_name"] = rnd.choice([
        m["application_name"],
        [[plain(2, "scope", "name"), plain(1, "resource", "name")]],
        [[lookup(1, ["resource", "attributes"], "service.version", ["value", "Value", "StringValue"])]],
        [[plain(0, "header", "system")]],
    ])
    m["parent_event_id"] = rnd.choice([m["parent_event_id"], [[plain(3, "parent_span_id"), plain(3, "links", "parent")]]])
    m["job_id"] = rnd.choice([m["job_id"], [[plain(3, "trace_id")], [plain(2, "scope", "name")]]])
    return m


def attr(key, field, val):
    return {"key": key, "value": {"Value": {field: val}}}


def candidate_pool():
    """candidates in the documented forms, by the level whose element they read"""
    sv = lambda f: ["value", "Value", f]          # noqa: E731
    pool = [plain(0, "header", "system"), plain(1, "resource", "name"), plain(2, "scope", "name"),
            plain(3, "name"), plain(3, "not_here"), plain(3, "links", "parent"), plain(3, "trace_id")]
    for key in ("service.name", "service.version"):
        for f in ("StringValue", "IntValue"):
            pool.append(lookup(1, ["resource", "attributes"], key, sv(f)))
    for key in ("http.method", "http.response", "absent.key"):
        for f in ("StringValue", "IntValue"):
            pool.append(lookup(3, ["attributes"], key, sv(f)))
    return pool


def free_mapping(rnd):
    """a mapping whose descriptive fields are drawn freely from the candidate pool: 1-2 concatenation positions, each a
    priority list of 1-3 candidates (identifiers and timestamps keep their plain paths so that records stay valid)"""
    m = default_mapping()
    pool = candidate_pool()
    for f in ("job_name", "event_type", "application_name"):
        m[f] = [[rnd.choice(pool) for _ in range(rnd.choice((1, 1, 2, 3)))] for _ in range(rnd.choice((1, 1, 2)))]
    if rnd.random() < 0.5:
        m["parent_event_id"] = [[plain(3, "parent_span_id")] + [rnd.choice(pool) for _ in range(rnd.choice((0, 1)))]]
    return m


def random_doc(rnd, nres=(1, 2), nscope=(0, 2), nspan=(0, 3), holes=0.2):
    """an OTel-shaped document with missing keys, empty arrays, nulls and several resource / scope groups"""
    cnt = [0]

    def maybe(d, key, val):
        r = rnd.random()
        if r < holes / 2:
            return                      # key absent
        if r < holes:
            d[key] = None               # explicit null
            return
        d[key] = val
    doc = {}
    if rnd.random() < 0.5:
        doc["header"] = {"system": rnd.choice(["sysA", "sysB"])}
    rss = []
    for ri in range(rnd.randint(*nres)):
        rs = {}
        res = {}
        maybe(res, "name", "res%d" % ri)
        attrs = []
        if rnd.random() > holes:
            attrs.append(attr("service.name", "StringValue", "svc%d" % ri))
        if rnd.random() > 0.5:
            attrs.append(attr("service.version", rnd.choice(["StringValue", "IntValue"]), "%d.0" % ri))
        rnd.shuffle(attrs)
        if rnd.random() > holes / 2:
            res["attributes"] = attrs
        if rnd.random() > holes / 2:
            rs["resource"] = res
        sss = []
        for si in range(rnd.randint(*nscope)):
            ss = {}
            if rnd.random() > holes / 2:
                sc = {}
                maybe(sc, "name", "scope%d_%d" % (ri, si))
                ss["scope"] = sc
            spans = []
            for _ in range(rnd.randint(*nspan)):
                cnt[0] += 1
                sp = {}
                maybe(sp, "trace_id", "t%d" % rnd.randrange(3))
                maybe(sp, "span_id", "s%d" % cnt[0])
                if rnd.random() < 0.6:
                    sp["parent_span_id"] = rnd.choice([None, "s%d" % rnd.randrange(1, cnt[0] + 1)])
                # texts as they occur in real telemetry: accents, CJK, quotes and backslashes, and the Unicode line
                # separators U+2028 / U+2029 / U+0085, which are ordinary characters inside a JSON string
                maybe(sp, "name", rnd.choice(["/get", "/put", "op"]) if rnd.random() < 0.85 else
                      rnd.choice(["caf\u00e9", "check\u2028out", "step\u0085two", "\u6f22\u5b57", "q\"uo\\te", "para\u2029graph {x}"]))
                ts = 1723544132228102912 + cnt[0] * 1000
                st = rnd.random()
                sp["start_time_unix_nano"] = ts if st < 0.6 else (str(ts) if st < 0.9 else "soon")
                if rnd.random() > holes / 2:
                    sp["end_time_unix_nano"] = ts + 500 if rnd.random() < 0.5 else str(ts + 500)
                at = []
                if rnd.random() > 0.3:
                    at.append(attr("http.method", "StringValue", rnd.choice(["GET", "PUT"])))
                if rnd.random() > 0.3:
                    at.append(attr("http.response", rnd.choice(["IntValue", "IntValue", "StringValue"]), rnd.choice(["200", 404])))
                rnd.shuffle(at)
                if rnd.random() > holes / 2:
                    sp["attributes"] = at
                if rnd.random() < 0.2:
                    sp["links"] = {"parent": "s%d" % rnd.randrange(1, cnt[0] + 1)}
                spans.append(sp)
            r = rnd.random()
            if r > holes / 2:
                ss["spans"] = spans
            sss.append(ss)
        if rnd.random() > holes / 3:
            rs["scope_spans"] = sss
        rss.append(rs)
    if rnd.random() > 0.03:
        doc["resource_spans"] = rss
    return doc


def texts_of(x, out):
    if isinstance(x, str):
        out.add(x)
    elif isinstance(x, int):
        out.add(str(x))
    elif isinstance(x, list):
        for v in x:
            texts_of(v, out)
    elif isinstance(x, dict):
        for v in x.values():
            texts_of(v, out)


def case_tla(c, obs):
    o = "<<" + ", ".join("(" + " @@ ".join("%s :> %s" % (tlc.tla_str(f), tlc.tla_str("<null>" if r.get(f) is None else enc(str(r[f]))))
                                             for f in FIELDS) + ")" for r in obs) + ">>"
    return "[docs |-> <<%s>>, map |-> %s, obs |-> %s]" % (", ".join(js_tla(d) for d in c["docs"]), map_tla(c["map"]), o)


def judge(cases, observed, stats=None, shard=150):
    """TLC computes the expected spans of every case and compares them (as bags) with the observed ones"""
    n = len(cases)
    idx = list(range(n))
    nsh = max(1, (n + shard - 1) // shard)
    shards = [idx[i::nsh] for i in range(nsh)]
    runs = []
    for s in shards:
        texts = set()
        for i in s:
            for d in cases[i]["docs"]:
                texts_of(d, texts)
        nums = sorted(t for t in texts if NUM_RE.match(t))
        runs.append(dict(main="FieldMap", cfg="INIT Init\nNEXT Next\nINVARIANT Report\n",
                         data={"FieldData": tlc.data_module("FieldData", {
                             "NumTexts": "{" + ", ".join(tlc.tla_str(t) for t in nums) + "}",
                             "Cases": "<<\n " + ",\n ".join(case_tla(cases[i], observed[i]) for i in s) + "\n>>"},
                             extends="Naturals, Sequences, TLC")},
                         modules=["FieldMap"], workers=1, allow_violation=False, timeout=1800))
    out = [None] * n
    for s, r in zip(shards, tlc.run_many(runs, 10)):
        if stats is not None:
            stats["states"] = stats.get("states", 0) + r.distinct
            stats["generated"] = stats.get("generated", 0) + r.generated
        for v in tlc.extract(r.out, "V"):
            out[s[v[1] - 1]] = {"equal": v[2], "expected_spans": v[3], "records": v[4], "expected": v[5]}
    if any(o is None for o in out):
        raise tlc.TLCError("FieldMap did not judge every case")
    return out
