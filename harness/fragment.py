"""Fragment F of block-structured job definitions (the quantifier of C01-C05, C07).

Definitions are *configurations* of spec/JobDef.tla (its constant D); enumerating
them here is not a semantic step - their executions always come from TLC.

Rules (verbatim from the property text): distinct event names; every sequence
(top level, fork branch, loop body) begins with an event; two blocks in one
sequence are separated by an event; AND/OR/XOR with 2-3 branches; nesting depth
<= 3; loops (nesting allowed) whose break branches are plain-event branches of an
XOR in the loop body (a single event when the loop is itself nested); detach only
as the last item of a branch of an outermost AND/OR fork.

Shapes are nested tuples without names: 'e' event, 'B' break, 'D' detach,
('and'|'or'|'xor', (branch, ...)) with branches sorted (canonical up to branch
order), ('loop', body).  Names are assigned A, B, C, ... in traversal order.
"""
from __future__ import annotations

import functools
import itertools
import random

MAXD = 3


@functools.lru_cache(None)
def seqs(n, depth, inloop, nested):
    """all sequences with exactly n events whose blocks sit at block depth `depth`+1"""
    res = set()

    def rec(remaining, items, last_is_block):
        if remaining == 0:
            res.add(tuple(items))
            return
        if not items or last_is_block:
            rec(remaining - 1, items + ['e'], False)          # must be an event
        else:
            rec(remaining - 1, items + ['e'], False)
            if depth < MAXD:
                for k in range(1, remaining + 1):
                    for b in blocks(k, depth, inloop, nested):
                        rec(remaining - k, items + [b], True)
    rec(n, [], False)
    return frozenset(res)


@functools.lru_cache(None)
def branches(n, nb, depth, inloop, nested):
    out = set()

    def rec(rem, k, acc):
        if k == 0:
            if rem == 0:
                out.add(tuple(sorted(acc, key=repr)))
            return
        for m in range(1, rem - (k - 1) + 1):
            for s in seqs(m, depth, inloop, nested):
                rec(rem - m, k - 1, acc + [s])
    rec(n, nb, [])
    return frozenset(out)


@functools.lru_cache(None)
def blocks(n, depth, inloop, nested):
    out = set()
    for kind in ("and", "or", "xor"):
        for nb in (2, 3):
            if n >= nb:
                for bs in branches(n, nb, depth + 1, inloop, nested):
                    out.add((kind, bs))
                    if kind in ("and", "or") and depth == 0 and not inloop:
                        for i, b in enumerate(bs):
                            if b[-1] == 'e':
                                nbs = list(bs)
                                nbs[i] = b + ('D',)
                                out.add((kind, tuple(sorted(nbs, key=repr))))
    for body in loopbodies(n, depth + 1, inloop):
        out.add(("loop", body))
    return frozenset(out)


@functools.lru_cache(None)
def loopbodies(n, depth, nestedloop):
    out = set(seqs(n, depth, True, nestedloop))
    if depth <= MAXD:
        for nbreak in ((1,) if nestedloop else (1, 2)):
            for brk_sizes in itertools.product(((1,) if nestedloop else (1, 2)), repeat=nbreak):
                used = sum(brk_sizes) + 1
                for trailing in (0, 1):
                    rem = n - used - trailing
                    if rem < 1:
                        continue
                    for pre in seqs(rem, depth, True, nestedloop):
                        if pre[-1] != 'e':
                            continue
                        brs = [('e',) * s + ('B',) for s in brk_sizes] + [('e',)]
                        x = ("xor", tuple(sorted(brs, key=repr)))
                        out.add(pre + (x,) + (('e',) if trailing else ()))
    return frozenset(out)


def shapes(n):
    """all shapes of F with exactly n events, deterministic order"""
    return sorted(seqs(n, 0, False, False), key=repr)


def shapes_plus(n):
    """F+ (C05 only): top level starts with an AND/OR fork (several start events)."""
    out = []
    for sh in shapes(n + 1):
        if len(sh) >= 2 and sh[0] == 'e' and isinstance(sh[1], tuple) and sh[1][0] in ("and", "or"):
            out.append(sh[1:])
    return out


def _name(k):
    s = ""
    while k:
        k, m = divmod(k - 1, 26)
        s = chr(65 + m) + s
    return s


def to_ast(shape, perm=None):
    """shape -> AST with canonical names; perm: optional relabelling list of names"""
    cnt = [0]

    def name():
        cnt[0] += 1
        return perm[cnt[0] - 1] if perm else _name(cnt[0])

    def conv_seq(items):
        out = []
        for it in items:
            if it == 'e':
                out.append(("ev", name()))
            elif it == 'B':
                out.append(("break",))
            elif it == 'D':
                out.append(("detach",))
            elif it[0] == "loop":
                out.append(("loop", conv_seq(it[1])))
            else:
                out.append((it[0], [conv_seq(b) for b in it[1]]))
        return ("seq", out)
    return conv_seq(shape)


def enumerate_F(max_events, min_events=1):
    out = []
    for n in range(min_events, max_events + 1):
        out += [to_ast(s) for s in shapes(n)]
    return out


def enumerate_Fplus(max_events, min_events=2):
    out = []
    for n in range(min_events, max_events + 1):
        out += [to_ast(s) for s in shapes_plus(n)]
    return out


# ------------------------------------------------------------------ seeded sampler for larger sizes
class _GenF:
    def __init__(self, rnd, maxdepth=3, maxev=14):
        self.r, self.n, self.maxdepth, self.maxev = rnd, 0, maxdepth, maxev

    def ev(self):
        self.n += 1
        return ("ev", _name(self.n))

    def seq(self, depth, inloop, nestedloop, top=False):
        items = [self.ev()]
        nblocks = self.r.choice([0, 1, 1, 2] if top else [0, 0, 1, 1, 2]) if depth < self.maxdepth else 0
        for b in range(nblocks):
            if self.n >= self.maxev:
                break
            items.append(self.block(depth, inloop, nestedloop))
            if b < nblocks - 1 or self.r.random() < 0.6 or top:
                items.append(self.ev())
        if not top and len(items) == 1 and self.r.random() < 0.3:
            items.append(self.ev())
        return ("seq", items)

    def block(self, depth, inloop, nestedloop):
        kind = self.r.choice(["and", "or", "xor", "xor", "loop"])
        if kind == "loop":
            return ("loop", self.loopbody(depth + 1, nested=inloop))
        nb = self.r.choice([2, 2, 3])
        brs = [self.seq(depth + 1, inloop, nestedloop) for _ in range(nb)]
        if kind in ("and", "or") and depth == 0 and not inloop and self.r.random() < 0.3:
            i = self.r.randrange(nb)
            if brs[i][1][-1][0] == "ev":
                brs[i] = ("seq", brs[i][1] + [("detach",)])
        return (kind, brs)

    def loopbody(self, depth, nested):
        body = self.seq(depth, True, nested)
        if self.r.random() < 0.4:
            items = list(body[1])
            nbreak = 1 if nested else self.r.choice([1, 1, 2])
            brs = []
            for _ in range(nbreak):
                if nested:
                    brs.append(("seq", [self.ev(), ("break",)]))
                else:
                    brs.append(("seq", [self.ev() for _ in range(self.r.choice([1, 1, 2]))] + [("break",)]))
            brs.append(("seq", [self.ev()]))
            self.r.shuffle(brs)
            if items[-1][0] != "ev":
                items.append(self.ev())
            items.append(("xor", brs))
            if self.r.random() < 0.5:
                items.append(self.ev())
            body = ("seq", items)
        return body


def sample_F(seed, maxdepth=3, maxev=14):
    g = _GenF(random.Random(seed), maxdepth=maxdepth, maxev=maxev)
    return g.seq(0, False, False, top=True)


def count_events(ast):
    from puml import event_list
    return len(event_list(ast))


# ------------------------------------------------------------------ nesting triples (systematic depth-3 members of F)
def nesting_triples():
    """Members of F built systematically from every triple (outer, middle, inner) of constructs in
    {AND, OR, XOR, loop, XOR-with-break}: the inner block sits at the end or in the middle of one branch / body of the
    middle block, which sits at the end or in the middle of one branch / body of the outer block; the definition ends
    with the outer block or with one more event.  All rules of F hold (distinct names, sequences begin with an event,
    blocks separated by events, 2 branches, depth 3, a break branch is a single event inside a loop's XOR)."""
    out, seen = [], set()
    kinds = ("and", "or", "xor", "loop")

    def build(outer, middle, inner, ipos, mpos, tail, brk):
        cnt = [0]

        def ev():
            cnt[0] += 1
            return ("ev", _name(cnt[0]))

        def wrap(kind, content, pos):
            """a block of `kind` holding `content` (list of items) at the end (pos 0) or in the middle (pos 1) of its
            first branch / body"""
            first = [ev()] + content + ([ev()] if pos == 1 else [])
            if kind == "loop":
                return ("loop", ("seq", first))
            return (kind, [("seq", first), ("seq", [ev()])])
        a = ev()
        if inner == "loop":
            ib = ("loop", ("seq", [ev(), ev()]))
        elif brk:
            ib = ("xor", [("seq", [ev(), ("break",)]), ("seq", [ev()])])
        else:
            ib = (inner, [("seq", [ev()]), ("seq", [ev()])])
        # reorder names: build outside-in so that names follow the reading order
        cnt[0] = 0
        a = ev()
        o_first = [ev()]
        m_first = [ev()]
        if inner == "loop":
            ib = ("loop", ("seq", [ev(), ev()]))
        elif brk:
            ib = ("xor", [("seq", [ev(), ("break",)]), ("seq", [ev()])])
        else:
            ib = (inner, [("seq", [ev()]), ("seq", [ev()])])
        m_first = m_first + [ib] + ([ev()] if ipos == 1 else [])
        mb = ("loop", ("seq", m_first)) if middle == "loop" else (middle, [("seq", m_first), ("seq", [ev()])])
        o_first = o_first + [mb] + ([ev()] if mpos == 1 else [])
        ob = ("loop", ("seq", o_first)) if outer == "loop" else (outer, [("seq", o_first), ("seq", [ev()])])
        items = [a, ob] + ([ev()] if tail else [])
        return ("seq", items)
    for outer in kinds:
        for middle in kinds:
            for inner in kinds:
                for brk in ((False, True) if inner == "xor" and "loop" in (outer, middle) else (False,)):
                    if brk and middle != "loop" and not (outer == "loop" and middle == "xor"):
                        # the break branch must belong to an XOR of a loop body: the XOR's own loop is the middle
                        # block, or the middle block is an XOR of the outer loop's body
                        continue
                    for ipos in (0, 1):
                        for mpos in (0, 1):
                            for tail in (1, 0):
                                d = build(outer, middle, inner, ipos, mpos, tail, brk)
                                from puml import to_text
                                t = to_text(d)
                                if t not in seen:
                                    seen.add(t)
                                    out.append(d)
    return out
