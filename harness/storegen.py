"""Scenario families for the store properties (C09-C12, C15).  Scenarios are inputs (configurations) of
spec/Store.tla; what the real code does with them is always judged by TLC."""
from __future__ import annotations

import itertools
import random

from store import span, NOPAR, universe_ingest

BIG = 50        # "larger than the stream"


def ingest_streams(maxlen, base_only=False, only_len=None):
    """every stream over the C10 universe (3 ids x 2 payload versions x parent placements) up to maxlen spans"""
    u = universe_ingest()
    if base_only:
        u = [x for x in u if x["job"] == "j1"]
    for n in range(1, maxlen + 1):
        for st in itertools.product(u, repeat=n):
            if only_len is not None and n != only_len:
                continue
            yield list(st)


def c10_exhaustive(maxlen, batches=(1, 2, 3, BIG), base_only=False, only_len=None):
    out = []
    for st in ingest_streams(maxlen, base_only, only_len):
        for b in batches:
            if b != BIG and b > len(st) + 1:
                continue
            out.append({"B": b, "buf": 0, "runs": [{"ing": True, "ug": False, "only_ingest": True, "spans": st}]})
    return out


def random_stream(rnd, nspans, nids, njobs=2, dangling=0.15, xjob=0.0):
    """a stream with duplicate ids at random places; span i belongs to trace i mod njobs; the first id of a trace is
    its root, every other span points to a lower id of its own trace (acyclic, one root per trace) or to a missing span"""
    ids = ["e%d" % i for i in range(1, nids + 1)]
    out = []
    for _ in range(nspans):
        i = rnd.randrange(nids)
        if i < njobs:
            par = NOPAR
        elif rnd.random() < dangling:
            par = "x%d" % rnd.randrange(3)
        else:
            par = ids[rnd.choice(range(i % njobs, i, njobs))]
        s = rnd.randrange(0, 8)
        job = "j%d" % (1 + i % njobs)
        if rnd.random() < xjob:
            job = "j%d" % (1 + (i + 1) % njobs)      # the id re-used by a span of another trace
        out.append(span(ids[i], par, job, "n%d" % (1 + i % 2), rnd.choice("ABC"), s,
                        s + rnd.randrange(0, 3)))
    return out


def c10_random(n, seed, across_runs=True):
    rnd = random.Random(repr(("c10", seed)))
    out = []
    for k in range(n):
        nids = rnd.randrange(2, 7)
        # span ids re-used under another trace id only where no cleaning runs in between (a parent in another trace is
        # outside what the cleaning steps are specified for)
        mid = across_runs and k % 2 and rnd.random() < 0.5
        xj = 0.0 if mid else 0.12
        st = random_stream(rnd, rnd.randrange(3, 13), nids, xjob=xj)
        b = rnd.choice([1, 2, 3, 4, 5, 7, BIG])
        runs = [{"ing": True, "ug": False, "only_ingest": True, "spans": st}]
        if across_runs and k % 2:
            # a second (and third) process ingests an overlapping stream into the same database; in between the full
            # pipeline (with cleaning) may run
            st2 = random_stream(rnd, rnd.randrange(2, 10), nids, xjob=xj)
            runs = [{"ing": True, "ug": False, "only_ingest": not mid, "spans": st},
                    {"ing": True, "ug": False, "only_ingest": True, "spans": st2 + (st[:3] if rnd.random() < 0.5 else [])}]
        out.append({"B": b, "buf": 0, "runs": runs})
    return out


# ------------------------------------------------------------------ trace templates for C11 / C09 / C12 / C15
def tree_spans(shape, job, name, pfx, t0=2, names=None, app="app"):
    """shape: (type, [child shapes]); ids pfx0, pfx1, ... in pre-order; every span inside [t0, t0+4]"""
    out = []
    cnt = [0]

    def rec(node, par, depth):
        i = cnt[0]
        cnt[0] += 1
        eid = "%s%d" % (pfx, i)
        nm = names[i % len(names)] if names else name
        sp = span(eid, par, job, nm, node[0], t0 + min(depth, 1), t0 + 4 - min(depth, 1))
        sp["app"] = app
        out.append(sp)
        for c in node[1]:
            rec(c, eid, depth + 1)
    rec(shape, NOPAR, 0)
    return out


def shapes(maxn, types=("A", "B")):
    """all rooted unordered trees with at most maxn nodes labelled over `types` (canonical: sorted children)"""
    memo = {}

    def forests(n, maxroot):
        # multisets of trees with total n nodes, each tree <= maxroot in the canonical order
        if n == 0:
            return [()]
        res = []
        ts = [t for k in range(1, n + 1) for t in trees(k)]
        ts.sort(key=repr)
        for t in ts:
            if maxroot is not None and repr(t) > repr(maxroot):
                continue
            k = size(t)
            for rest in forests(n - k, t):
                res.append((t,) + rest)
        return res

    def size(t):
        return 1 + sum(size(c) for c in t[1])

    def trees(n):
        if n not in memo:
            memo[n] = [(ty, list(f)) for ty in types for f in forests(n - 1, None)]
        return memo[n]
    return [t for n in range(1, maxn + 1) for t in trees(n)]


def interleave(rnd, lists):
    lists = [list(x) for x in lists if x]
    out = []
    while lists:
        k = rnd.randrange(len(lists))
        out.append(lists[k].pop(0))
        if not lists[k]:
            lists.pop(k)
    return out


def forest_scenarios(n, seed, maxnodes=4, maxtrees=5, ug=True, batches=(1, 2, 3, 4, 5, 6, 7, BIG), tag="c09"):
    """stores made of several traces (random shapes, possibly repeated) over two workflow names, ingested in an
    interleaved order, each with a second presentation (other order, other batch size) on the same data"""
    rnd = random.Random(repr((tag, seed)))
    shp = shapes(maxnodes)
    out = []
    for k in range(n):
        nt = rnd.randrange(1, maxtrees + 1)
        base = [rnd.choice(shp) for _ in range(max(1, nt - 1))]
        chosen = [rnd.choice(base) if rnd.random() < 0.5 else rnd.choice(shp) for _ in range(nt)]
        per = []
        for i, sh in enumerate(chosen):
            name = "n%d" % (1 + rnd.randrange(2))
            kids = list(sh[1])
            rnd.shuffle(kids)                       # sibling order is not part of the shape
            nm = [name] if rnd.random() < 0.7 else [name, "other"]
            per.append(tree_spans((sh[0], kids), "j%d" % (i + 1), name, "t%d_" % (i + 1), t0=2 + rnd.randrange(3),
                                  names=nm))
        for v in range(4):
            # presentations of the same data: trace by trace, interleaved, any order, children before their parents
            if v == 0:
                st = [s for p in per for s in p]
            elif v == 1:
                st = interleave(rnd, per)
            elif v == 2:
                st = [s for p in per for s in p]
                rnd.shuffle(st)
            else:
                st = interleave(rnd, [list(reversed(p)) for p in per])
            out.append({"B": rnd.choice(batches), "buf": 0, "group": k,
                        "runs": [{"ing": True, "ug": ug, "spans": st}]})
    return out


def filter_scenarios(n, seed, batches=(1, 2, 3, 5, BIG)):
    """stores with several workflow names streamed under an arbitrary name -> trace-id filter: true pairs, traces
    listed under another workflow's name, unknown ids, one name only"""
    rnd = random.Random(repr(("c12f", seed)))
    shp = shapes(3)
    out = []
    for k in range(n):
        nt = rnd.randrange(2, 6)
        per, pairs = [], []
        for i in range(nt):
            name = "n%d" % (1 + rnd.randrange(3))
            per.append(tree_spans(rnd.choice(shp), "j%d" % (i + 1), name, "t%d_" % (i + 1), t0=2 + rnd.randrange(3)))
            pairs.append((name, "j%d" % (i + 1)))
        names = sorted({p[0] for p in pairs})
        flt = [list(p) for p in pairs if rnd.random() < 0.5]
        for nm, jb in pairs:                      # a trace listed under a workflow name that is not its own
            if rnd.random() < 0.4:
                other = rnd.choice(names)
                if other != nm:
                    flt.append([other, jb])
        if rnd.random() < 0.3:
            flt.append([rnd.choice(names), "unknown-job"])
        if not flt:
            flt = [list(pairs[0])]
        st = interleave(rnd, per) if k % 2 else [s for p in per for s in p]
        out.append({"B": rnd.choice(batches), "buf": 0, "runs": [{"ing": True, "ug": True, "spans": st, "filter": flt}]})
    return out


def reuse_scenarios(n, seed, batches=(1, 2, 3, 5, BIG)):
    """one data-holder object used in phases: ingest some spans, stream, ingest more (new traces, late children of
    spans that were leaves at the first stream, late parents), stream again; a quarter of the stores hold the same trace
    id under two workflow names"""
    rnd = random.Random(repr(("c12r", seed)))
    shp = shapes(4)
    out = []
    for k in range(n):
        nt = rnd.randrange(2, 5)
        per = []
        shared = k % 4 == 1
        for i in range(nt):
            name = "n%d" % (1 + rnd.randrange(2))
            job = "j%d" % (i + 1)
            if shared:
                # trace ids are only unique within a workflow: two whole traces (distinct span ids) with the same trace
                # id under different workflow names, neighbours in the (name, trace id) order of the stream
                name = "n1" if i == 0 else ("n2" if i == 1 else name)
                job = "k0" if i < 2 else (("j%d" if name == "n1" else "t%d") % (i + 1))
            per.append(tree_spans(rnd.choice(shp), job, name, "t%d_" % (i + 1), t0=2 + rnd.randrange(3)))
        # parents before their children in every trace (pre-order, traces interleaved): whatever the cut points, the
        # store never holds a span whose parent is missing, so every stream reads a store of whole, consistent trees
        st = interleave(rnd, per) if k % 3 else [s for p in per for s in p]
        nph = 2 if k % 4 else 3
        cuts = sorted(rnd.sample(range(1, len(st)), min(nph - 1, len(st) - 1))) if len(st) > 1 else []
        phases = [st[a:b] for a, b in zip([0] + cuts, cuts + [len(st)])]
        run = {"ing": True, "ug": False, "spans": st, "phases": phases}
        if k % 5 == 0:
            # the last stream restricted to some workflow names (stream_data's filter_job_names parameter)
            run["names"] = sorted(rnd.sample(sorted({s["name"] for s in st}), 1))
        out.append({"B": rnd.choice(batches), "buf": 0, "runs": [run]})
    return out


def small_forests_exhaustive(maxnodes=3, batches=(1, 2, BIG)):
    """all multisets of one or two shapes with <= maxnodes nodes, same workflow name and different names"""
    shp = shapes(maxnodes)
    out = []
    for a, b in itertools.combinations_with_replacement(range(len(shp)), 2):
        for nb in ("n1", "n2"):
            st = tree_spans(shp[a], "j1", "n1", "a") + tree_spans(shp[b], "j2", nb, "b", t0=3)
            for bsz in batches:
                out.append({"B": bsz, "buf": 0, "runs": [{"ing": True, "ug": True, "spans": st}]})
    return out


# C11: trace templates relative to a data window [0, 10]
def c11_templates():
    return {
        "complete": [span("a0", NOPAR, "ja", "n1", "A", 3, 7), span("a1", "a0", "ja", "nX", "B", 4, 5),
                     span("a2", "a1", "ja", "n1", "C", 4, 5)],
        "dangling": [span("b0", NOPAR, "jb", "n1", "A", 3, 7), span("b1", "zz", "jb", "n1", "B", 4, 5)],
        "dangling_deep": [span("c0", NOPAR, "jc", "n2", "A", 3, 7), span("c1", "c0", "jc", "n2", "B", 4, 5),
                          span("c2", "qq", "jc", "n2", "C", 4, 5), span("c3", "c2", "jc", "n2", "C", 4, 5)],
        "early": [span("d0", NOPAR, "jd", "n2", "A", 0, 1), span("d1", "d0", "jd", "n2", "B", 0, 1)],
        "late": [span("e0", NOPAR, "je", "n1", "A", 9, 10), span("e1", "e0", "je", "nY", "B", 9, 10)],
        "straddle_out": [span("f0", NOPAR, "jf", "n2", "A", 0, 10)],
        "straddle_in": [span("g0", NOPAR, "jg", "n2", "A", 0, 10), span("g1", "g0", "jg", "nZ", "B", 5, 5)],
        "edge": [span("h0", NOPAR, "jh", "n1", "A", 1, 2), span("h1", "h0", "jh", "n1", "B", 8, 9)],
        "names": [span("i0", NOPAR, "ji", "n3", "A", 4, 6), span("i1", "i0", "ji", "n1", "B", 4, 6),
                  span("i2", "i0", "ji", "n2", "B", 5, 6)],
        # one trace with two anomalies at once: a dangling parent below spans that carry other workflow names ...
        "dangling_names": [span("k0", NOPAR, "jk", "n1", "A", 3, 7), span("k1", "k0", "jk", "n2", "B", 4, 5),
                           span("k2", "yy", "jk", "n3", "C", 4, 5), span("k3", "k2", "jk", "n1", "C", 4, 5)],
        # ... outside the window with inconsistent names ...
        "early_names": [span("m0", NOPAR, "jm", "n2", "A", 0, 1), span("m1", "m0", "jm", "n3", "B", 0, 1)],
        # ... and outside the window with a dangling parent
        "late_dangling": [span("p0", NOPAR, "jp", "n1", "A", 9, 10), span("p1", "ww", "jp", "n1", "B", 9, 10)],
    }


C11_COMBINED = ("dangling_names", "early_names", "late_dangling")


def c11_scenarios(tier, seed):
    rnd = random.Random(repr(("c11", seed)))
    T = c11_templates()
    keys = sorted(T)
    out = []
    sizes = (1, 2, 3) if tier == "quick" else (1, 2, 3, 4)
    for n in sizes:
        for combo in itertools.combinations(keys, n):
            if tier == "quick" and n >= 3 and any(k in C11_COMBINED for k in combo):
                continue        # the combined-anomaly templates: alone and in pairs (thorough: also in triples and,
            if n >= 4 and sum(k in C11_COMBINED for k in combo) > 1:
                continue        # one at a time, in quadruples)
            for buf in (0, 1, 2):
                for b in ((2, BIG) if tier == "quick" else (1, 2, 3, BIG)):
                    lists = [T[k] for k in combo]
                    st = interleave(rnd, lists)
                    # timestamps as they are in real data: not multiples of 256 ns (a double cannot hold them); 200 rounds
                    # up to the next representable value, 77 rounds down
                    out.append({"B": b, "buf": buf, "combo": list(combo), "ns_offset": (0, 200, 77)[len(out) % 3],
                                "runs": [{"ing": True, "ug": False, "spans": st}]})
    return out


def sibling_confusion_scenarios(batches=(1, 2, 3, BIG)):
    """siblings of the same span type with different sub-trees: the shape X = R[c1, c2] stored twice, once in each
    sibling order, next to the shapes it must not be confused with, R[c1, c1] and R[c2, c2] (three classes, X twice)"""
    out = []
    for t in ("A", "B"):
        subs = [(t, []), (t, [("A", [])]), (t, [("B", [])]), (t, [("A", []), ("B", [])])]
        for c1, c2 in itertools.combinations(subs, 2):
            trees = [("A", [c1, c2]), ("A", [c2, c1]), ("A", [c1, c1]), ("A", [c2, c2])]
            per = [tree_spans(sh, "j%d" % (i + 1), "n1", "t%d_" % (i + 1), t0=2) for i, sh in enumerate(trees)]
            for b in batches:
                for rev in (False, True):
                    st = [s for p in (reversed(per) if rev else per) for s in (reversed(p) if rev else p)]
                    out.append({"B": b, "buf": 0, "runs": [{"ing": True, "ug": True, "spans": list(st)}]})
    return out


def c09_window_scenarios(tier, seed):
    """unique-graph selection with a time buffer: traces before / after / straddling the buffered window next to
    same-shaped traces inside it (the candidates are the roots of the traces that have a span starting or ending inside
    the window - the root itself may lie outside)"""
    rnd = random.Random(repr(("c09w", seed)))
    T = c11_templates()
    keys = ["complete", "early", "late", "straddle_out", "straddle_in", "edge", "names"]
    # same-shaped companions: a copy of a template under another trace id, shifted inside the window
    def copy(k, tag, dt=0):
        return [dict(s, eid=tag + s["eid"], job=tag + s["job"], par=(tag + s["par"]) if s["par"] != NOPAR else NOPAR,
                     s=min(10, s["s"] + dt), e=min(10, s["e"] + dt)) for s in T[k]]
    out = []
    for n in (2, 3):
        for combo in itertools.combinations(keys, n):
            if tier == "quick" and n == 3 and rnd.random() < 0.5:
                continue
            for buf in (1, 2):
                lists = [T[k] for k in combo] + [copy(combo[0], "x", 0), copy(combo[-1], "y", 3 if combo[-1] == "early" else 0)]
                out.append({"B": rnd.choice((1, 2, 3, BIG)), "buf": buf, "combo": list(combo),
                            "runs": [{"ing": True, "ug": True, "spans": interleave(rnd, lists)}]})
    return out


def twin_of(scn, lines):
    """the same scenario without the spans of traces that the (single) run did not output"""
    kept = set()
    for d in lines:
        if d["op"] == "stream":
            for p in d.get("pv", []):
                for e in p["evs"]:
                    kept.add(e["job"])
    run = scn["runs"][0]
    spans = [s for s in run["spans"] if s["job"] in kept]
    if len(spans) == len(run["spans"]) or not spans:
        return None
    return {"B": scn["B"], "buf": scn["buf"], "ns_offset": scn.get("ns_offset", 0), "runs": [dict(run, spans=spans)]}


# C15: run histories
FLAGS = [(i, u, s) for i in (1, 0) for u in (0, 1) for s in (0, 1)]


def c15_datasets():
    T = c11_templates()
    d1 = T["complete"] + T["names"] + [dict(s, eid="k" + s["eid"], job="jk", par=("k" + s["par"]) if s["par"] != NOPAR else NOPAR)
                                      for s in T["complete"]]
    d2 = T["complete"] + T["dangling"] + T["early"] + T["edge"]      # the first run's cleaning removes traces
    # the files contain a re-delivered span (same id twice, next to each other and far apart)
    d3 = T["complete"][:2] + [dict(T["complete"][1])] + T["names"] + [dict(T["complete"][0])] + T["complete"][2:]
    # time buffer > 0, the first run's window pass removes the outermost traces, and among the survivors one trace lies
    # within the buffer of the survivors' own extremes: a later run must not judge it against a window of its own
    d4 = T["early"] + T["late"] + T["complete"] + T["names"] + \
        [span("q0", NOPAR, "jq", "n1", "A", 2, 3), span("q1", "q0", "jq", "n1", "B", 2, 3),
         span("r0", NOPAR, "jr", "n2", "A", 7, 8)]
    return [("same-shapes", d1, 0), ("cleaning-removes", d2, 1), ("duplicated-spans", d3, 0), ("buffered-edge", d4, 2)]


def c15_histories(maxlen):
    out = []
    for n in range(1, maxlen + 1):
        out.extend(itertools.product(FLAGS, repeat=n))
    return out


def c15_scenarios(tier, seed):
    rnd = random.Random(repr(("c15", seed)))
    out = []
    hs = c15_histories(2)
    longer = [tuple(rnd.choice(FLAGS) for _ in range(rnd.choice((3, 4)))) for _ in range(40)] if tier == "quick" \
        else c15_histories(4)[len(hs):]
    for name, data, buf in c15_datasets():
        for h in list(hs) + list(longer):
            if not any(f[0] for f in h):
                continue            # a history that never ingests has an empty store throughout
            b = rnd.choice((1, 2, 3, BIG))
            out.append({"B": b, "buf": buf, "dataset": name,
                        "runs": [{"ing": bool(i), "ug": bool(u), "se": bool(s), "spans": data if i else []} for i, u, s in h]})
    return out
