"""Binding to spec/Store.tla, spec/StoreProps.tla and spec/StoreObs.tla.

* exhaustive(): design-level model checking (B3) of the implementation-shaped store model with small constants;
* run_scenarios(): drives the real SQLDataHolder / otel_to_pv orchestration on scenarios, one forked process per run,
  logging one line per public call (table contents read back through an independent sqlite3 connection);
* validate(): TLC checks every logged execution against Store.tla (conformance) and StoreObs.tla (the listed
  properties evaluated on the observed tables).

A span is a dict {eid, par, job, name, ty, s, e}; par "-" = root; s/e minutes after T0.
A scenario is {"B": batch size, "buf": minutes, "runs": [{"ing": bool, "ug": bool, "spans": [span, ...]}, ...]}.
"""
from __future__ import annotations

import json
import os
import shutil
import sqlite3
import sys
import tempfile
import time
import traceback

import tlc

HARNESS = os.path.dirname(os.path.abspath(__file__))
VERIF = os.path.dirname(HARNESS)
WORK = os.path.join(VERIF, "work")
T0 = 1_700_000_000_000_000_000
MIN = 60_000_000_000
NOPAR = "-"


def span(eid, par=NOPAR, job="j1", name="n1", ty="A", s=1, e=2):
    return {"eid": eid, "par": par, "job": job, "name": name, "ty": ty, "s": s, "e": e}


def span_tla(sp):
    return '[eid |-> "%s", par |-> "%s", job |-> "%s", name |-> "%s", ty |-> "%s", s |-> %d, e |-> %d]' % (
        sp["eid"], sp["par"], sp["job"], sp["name"], sp["ty"], sp["s"], sp["e"])


def spans_tla(sps, sep=", "):
    return "{" + sep.join(span_tla(s) for s in sps) + "}"


# ------------------------------------------------------------------ B3: exhaustive configurations
def data_exhaustive(spans, maxlen, batches, buffers, maxruns, runflags, clean_on, same_files=False, crashes=False):
    return {"StoreData": tlc.data_module("StoreData", {
        "Spans": spans_tla(spans, ",\n   "),
        "MaxLen": str(maxlen),
        "Batches": "{" + ", ".join(str(b) for b in batches) + "}",
        "Buffers": "{" + ", ".join(str(b) for b in buffers) + "}",
        "MaxRuns": str(maxruns),
        "RunFlags": "{" + ", ".join("[ing |-> %s, ug |-> %s]" % (tlc.tla(bool(i)), tlc.tla(bool(u)))
                                    for i, u in runflags) + "}",
        "CleanOn": tlc.tla(bool(clean_on)),
        "SameFiles": tlc.tla(bool(same_files)),
        "Crashes": tlc.tla(bool(crashes)),
        "Traces": "<<>>"}, extends="Naturals, Sequences, FiniteSets, TLC")}


INVS_INGEST = ["TypeOK", "UniqueEid", "NoCrash", "IngestExact", "NothingPending", "LinksKept"]
INVS_ALL = INVS_INGEST + ["UniqueExact", "StreamExact"]
PROPS_CLEAN = ["CleanInconsistentExact", "CleanWindowExact", "CleanNamesExact", "CleanAssocFrame"]
PROPS_RUNS = ["SameAnswer"]
ACTIONS = ["Open", "SaveData", "Exit", "InsertNodes", "InsertAssoc", "Filter", "RemoveInconsistent",
           "RemoveOutsideWindow", "UpdateJobNames", "SkipCleaning", "UgStart", "HashPage", "SelectUnique", "StreamFrom", "Reenter",
           "EndRun"]


def cfg(invs, props=()):
    return "INIT Init\nNEXT Next\n" + "".join("INVARIANT %s\n" % i for i in invs) + \
        "".join("PROPERTY %s\n" % p for p in props)


def exhaustive(spans, *, maxlen, batches, buffers=(0,), maxruns=1, runflags=((1, 0),), clean_on=False, same_files=False, crashes=False, invs=None,
               props=(), workers=16, timeout=3000, coverage=False, heap="8g", simulate=None, depth=None):
    """model-check Store.tla on a small universe; returns the TLCResult (violated names in .violated)"""
    return tlc.run_tlc("Store", cfg(invs or INVS_INGEST, props),
                       data_exhaustive(spans, maxlen, batches, buffers, maxruns, runflags, clean_on, same_files, crashes),
                       modules=["Store", "StoreProps"], workers=workers, timeout=timeout, coverage=coverage,
                       jvm="throughput", heap=heap, simulate=simulate, depth=depth)


def universe_ingest():
    """3 span ids x 2 payload versions x parent options (parents only towards lower ids, or missing), plus the id e2
    under another trace id"""
    out = []
    for ty in ("A", "B"):
        out.append(span("e1", NOPAR, ty=ty))
        for par in (NOPAR, "e1", "eX"):
            out.append(span("e2", par, ty=ty))
        for par in ("e1", "e2"):
            out.append(span("e3", par, ty=ty))
    # a span id re-used by a span of another trace (span ids are unique across the whole store, not per trace)
    out.append(span("e2", NOPAR, job="j2", ty="A"))
    out.append(span("e2", "e1", job="j2", ty="B"))
    return out


def universe_runs():
    """three traces over two workflow names: j1 complete (root+child, the child carries another name), j2 of the same
    shape as j1, j3 whose child has a dangling parent / a different shape, with times inside and outside a window"""
    return [
        span("r1", NOPAR, "j1", "n1", "A", 2, 6), span("c1", "r1", "j1", "nX", "B", 3, 4),
        span("r2", NOPAR, "j2", "n1", "A", 3, 5), span("c2", "r2", "j2", "n1", "B", 3, 4),
        span("r3", NOPAR, "j3", "n2", "A", 0, 1), span("c3", "zz", "j3", "n2", "B", 0, 1),
        span("d3", "r3", "j3", "n2", "B", 8, 9),
    ]


# ------------------------------------------------------------------ running the real code
def scratch_dir():
    base = "/dev/shm" if os.path.isdir("/dev/shm") and os.access("/dev/shm", os.W_OK) else WORK
    os.makedirs(base, exist_ok=True)
    return tempfile.mkdtemp(prefix="verif-store-", dir=base)


def run_scenarios(scns: list[dict], parallel: int = 14) -> list[list[dict]]:
    """run every scenario on the real code; returns the logged lines per scenario (same order)"""
    import subprocess
    from concurrent.futures import ThreadPoolExecutor
    import learner
    if not scns:
        return []
    os.makedirs(WORK, exist_ok=True)
    wd = tempfile.mkdtemp(prefix="store-", dir=WORK)
    dbdir = scratch_dir()
    try:
        n = max(1, min(parallel, (len(scns) + 7) // 8))
        shards = [list(range(len(scns)))[i::n] for i in range(n)]

        def one(k, idx):
            cpath, rpath = os.path.join(wd, "c%d.jsonl" % k), os.path.join(wd, "r%d.jsonl" % k)
            with open(cpath, "w") as fh:
                for i in idx:
                    fh.write(json.dumps({"cid": i, "scn": scns[i], "db": os.path.join(dbdir, "s%d_%d.db" % (k, i))}) + "\n")
            open(rpath, "w").close()
            p = subprocess.run([learner.PY, os.path.join(HARNESS, "store_runner.py"), cpath, rpath],
                               env=learner.child_env(0), capture_output=True, text=True,
                               timeout=600 + 20 * len(idx))
            res = {}
            with open(rpath) as fh:
                for ln in fh:
                    d = json.loads(ln)
                    res[d["cid"]] = d
            if p.returncode != 0 or len(res) != len(idx):
                raise RuntimeError("store runner failed (rc=%s): %s" % (p.returncode, p.stderr[-1500:]))
            return res
        out = {}
        with ThreadPoolExecutor(max_workers=n) as ex:
            for r in ex.map(lambda a: one(*a), enumerate(shards)):
                out.update(r)
        res = []
        for i in range(len(scns)):
            d = out[i]
            if "error" in d or any(x.get("op") == "harness-error" for x in d.get("lines", [])):
                raise RuntimeError("store runner error on scenario %d: %s" % (i, d.get("error") or d["lines"][-1]))
            res.append(d["lines"])
        return res
    finally:
        shutil.rmtree(wd, ignore_errors=True)
        shutil.rmtree(dbdir, ignore_errors=True)


# ------------------------------------------------------------------ logged lines -> TLA+
def _nodes_tla(nodes):
    return "{" + ", ".join(span_tla(n) for n in nodes) + "}"


def _post_tla(p):
    return "[nodes |-> %s, assoc |-> {%s}, hashes |-> {%s}, npend |-> %d, status |-> %s]" % (
        _nodes_tla(p["nodes"]), ", ".join('<<"%s", "%s">>' % (a, b) for a, b in p["assoc"]),
        ", ".join('[job |-> "%s", name |-> "%s", h |-> "%s"]' % (h["job"], h["name"], h["h"]) for h in p["hashes"]),
        p["npend"], tlc.tla_str(p["status"]))


DUMMY_SPAN = span("-", NOPAR, "-", "-", "-", 0, 0)


def _outseq_tla(oseq):
    return "<<" + ", ".join('[name |-> "%s", jobs |-> <<%s>>]' % (o["name"], ", ".join(
        '[job |-> "%s", spans |-> <<%s>>]' % (j["job"], ", ".join(
            '[eid |-> "%s", ch |-> {%s}]' % (s["eid"], ", ".join('"%s"' % c for c in s["ch"])) for s in j["spans"]))
        for j in o["jobs"])) for o in oseq) + ">>"


def _pv_tla(pv):
    return "{" + ", ".join('[name |-> "%s", evs |-> {%s}]' % (j["name"], ", ".join(
        '[eid |-> "%s", ty |-> "%s", job |-> "%s", jname |-> "%s", app |-> "%s", ts |-> "%s", prev |-> {%s}]' % (
            e["eid"], e["ty"], e["job"], e["jname"], e["app"], e["ts"], ", ".join('"%s"' % x for x in e["prev"]))
        for e in j["evs"])) for j in pv) + "}"


def line_tla(d):
    return ('[op |-> "%s", run |-> %d, ing |-> %s, ug |-> %s, span |-> %s, sel |-> {%s}, outseq |-> %s, pv |-> %s, '
            'post |-> %s]') % (
        d["op"], d["run"] + 1, tlc.tla(bool(d.get("ing", False))), tlc.tla(bool(d.get("ug", False))),
        span_tla(d.get("span") or DUMMY_SPAN),
        ", ".join('<<"%s", "%s">>' % (n, j) for n, j in d.get("sel", [])),
        _outseq_tla(d.get("outseq", [])), _pv_tla(d.get("pv", [])), _post_tla(d["post"]))


def data_traces(scns, logs, twins=None):
    """StoreData for trace mode: Traces[i] = [B, buf, ev, twin]"""
    trs = []
    for i, (scn, lines) in enumerate(zip(scns, logs)):
        tw = twins[i] if twins and twins[i] is not None else []
        trs.append("[B |-> %d, buf |-> %d,\n   ev |-> <<%s>>,\n   twin |-> <<%s>>]" % (
            scn["B"], scn["buf"], ",\n     ".join(line_tla(d) for d in lines), ",\n     ".join(line_tla(d) for d in tw)))
    return {"StoreData": tlc.data_module("StoreData", {
        "Spans": "{}", "MaxLen": "0", "Batches": "{}", "Buffers": "{}", "MaxRuns": "0", "RunFlags": "{}",
        "CleanOn": "TRUE", "SameFiles": "FALSE", "Crashes": "FALSE",
        "Traces": "<<\n  " + ",\n  ".join(trs) + "\n>>"}, extends="Naturals, Sequences, FiniteSets, TLC")}


OBS_PROPS = ["C10", "C11", "C09", "C12", "C15"]


def validate(scns, logs, twins=None, *, parallel=10, stats=None, conformance=True):
    """TLC on the logged executions.  Returns (bad, drift):
       bad[i]   = list of (property clause, line number) the observed tables violate (StoreObs.tla)
       drift[i] = None if Store.tla accepts the execution, else the number of lines it could follow."""
    n = len(scns)
    bad = [[] for _ in range(n)]
    drift = [None] * n
    if n == 0:
        return bad, drift
    idx = list(range(n))
    # bounded data modules (more runs rather than bigger ones): at most 300 executions and about 700 logged lines each
    shards, cur, lines = [], [], 0
    for i in idx:
        w = len(logs[i]) + (len(twins[i]) if twins and twins[i] else 0)
        if cur and (len(cur) >= 300 or lines + w > 700):
            shards.append(cur)
            cur, lines = [], 0
        cur.append(i)
        lines += w
    if cur:
        shards.append(cur)
    runs = []
    for s in shards:
        data = data_traces([scns[i] for i in s], [logs[i] for i in s], [twins[i] for i in s] if twins else None)
        runs.append(dict(main="StoreObs", cfg="INIT Init\nNEXT Next\nINVARIANT Report\n", data=data,
                         modules=["StoreObs", "StoreProps"], workers=1, allow_violation=False, timeout=1800, heap="5g"))
        if conformance:
            runs.append(dict(main="Store", cfg="INIT Init\nNEXT Next\nINVARIANT ReportAcc\nINVARIANT ReportPfx\n"
                                               "INVARIANT TypeOK\nINVARIANT UniqueEid\n", data=data,
                             modules=["Store", "StoreProps"], workers=1, allow_violation=False, timeout=1800, heap="5g"))
    if conformance and stats is not None:
        # per-action counts from a small separate run (coverage instrumentation of a large data module is too costly)
        few, nl = [], 0
        for i in idx[:: max(1, n // 40)]:
            if len(few) >= 40 or nl + len(logs[i]) > 350:
                break
            few.append(i)
            nl += len(logs[i])
        few = few or idx[:1]
        runs.append(dict(main="Store", cfg="INIT Init\nNEXT Next\nINVARIANT ReportAcc\n",
                         data=data_traces([scns[i] for i in few], [logs[i] for i in few]),
                         modules=["Store", "StoreProps"], workers=1, allow_violation=False, timeout=900, coverage=True,
                         heap="5g"))
    res = tlc.run_many(runs, parallel)
    if conformance and stats is not None:
        rc = res.pop()
        for a, c in tlc.action_counts(rc.out, "Store", ACTIONS).items():
            stats.setdefault("actions", {})[a] = stats.get("actions", {}).get(a, 0) + c
    k = 0
    for s in shards:
        r = res[k]
        k += 1
        if stats is not None:
            stats["obs_states"] = stats.get("obs_states", 0) + r.distinct
            stats["obs_generated"] = stats.get("obs_generated", 0) + r.generated
        ended = set()
        for v in tlc.extract(r.out, "END"):
            ended.add(v[1])
        for v in tlc.extract(r.out, "BAD"):
            bad[s[v[1] - 1]].append((v[2], v[3]))
        if len(ended) != len(s):
            raise tlc.TLCError("StoreObs did not evaluate every execution (%d of %d)" % (len(ended), len(s)))
        if conformance:
            r = res[k]
            k += 1
            if stats is not None:
                stats["conf_states"] = stats.get("conf_states", 0) + r.distinct
                stats["conf_generated"] = stats.get("conf_generated", 0) + r.generated
            acc = {v[1] for v in tlc.extract(r.out, "ACC")}
            pfx = {}
            for v in tlc.extract(r.out, "PFX"):
                pfx[v[1]] = max(pfx.get(v[1], 0), v[2])
            for j, i in enumerate(s, 1):
                if j not in acc:
                    drift[i] = pfx.get(j, 1) - 1
    return bad, drift
