"""Binding to spec/Sequencer.tla: call-tree cases, execution of the real sequencer, validation by TLC.

A case: {"n", "par": [0, p2, ...], "ty": [...], "s": [...], "e": [...], "async": bool,
         "grp": [[parent type, child type, group id], ...], "ren": [{"from", "to", "kids": [...]}, ...]}
Span i (1-based) has id "s<i>"; span 1 is the root.  Times are small integers (minutes after T0 in the real call)."""
from __future__ import annotations

import itertools
import random

import tlc

T0 = 1_700_000_000_000_000_000
MIN = 60_000_000_000
JOB, NAME, APP = "job-1", "wf", "app-x"

CFGS = [
    ([], []),
    ([["R", "A", "g1"], ["R", "B", "g1"]], []),
    ([], [{"from": "A", "to": "MA", "kids": ["B"]}]),
    ([["R", "B", "g1"], ["B", "B", "g1"]], [{"from": "A", "to": "MA", "kids": ["B"]}]),
    ([["A", "A", "g1"], ["A", "B", "g1"], ["R", "A", "g2"]], []),
    ([], [{"from": "R", "to": "MR", "kids": ["A"]}, {"from": "B", "to": "MB", "kids": ["A"]}]),
]


def siblings_ok(par, s, e):
    """distinct sibling starts; no sibling's end equals another sibling's start (what 'overlap' means for touching
    windows is not documented)"""
    n = len(par)
    for i in range(1, n):
        for j in range(i + 1, n):
            if par[i] == par[j]:
                if s[i] == s[j] or e[i] == s[j] or e[j] == s[i]:
                    return False
    return True


def exhaustive(nmax, grid, types=("A", "B"), cfgs=CFGS):
    ivs = [(a, b) for a in range(grid + 1) for b in range(a, grid + 1)]
    out = []
    for n in range(1, nmax + 1):
        for par in itertools.product(*[range(1, i) for i in range(2, n + 1)]):
            par = (0,) + par
            for tys in itertools.product(types, repeat=n - 1):
                for iv in itertools.product(ivs, repeat=n - 1):
                    s = [0] + [a for a, _ in iv]
                    e = [grid + 1] + [b for _, b in iv]
                    if not siblings_ok(par, s, e):
                        continue
                    for asy in (False, True):
                        for grp, ren in cfgs:
                            out.append({"n": n, "par": list(par), "ty": ["R"] + list(tys), "s": s, "e": e, "async": asy,
                                        "grp": grp, "ren": ren})
    return out


def flat(nkids, grid, types=("A", "B"), cfgs=CFGS, modes=(True,)):
    """a root with nkids children: every placement of the children's windows on the grid (the sibling-grouping rules
    in isolation: overlap chains across and inside prior-information groups)"""
    ivs = [(a, b) for a in range(grid + 1) for b in range(a, grid + 1)]
    out = []
    n = nkids + 1
    par = [0] + [1] * nkids
    for tys in itertools.product(types, repeat=nkids):
        for iv in itertools.product(ivs, repeat=nkids):
            s = [0] + [a for a, _ in iv]
            e = [grid + 1] + [b for _, b in iv]
            if not siblings_ok(par, s, e) or list(s[1:]) != sorted(s[1:]):
                continue          # children listed in start order (their order in the input is shuffled by the driver)
            for asy in modes:
                for grp, ren in cfgs:
                    out.append({"n": n, "par": par, "ty": ["R"] + list(tys), "s": s, "e": e, "async": asy,
                                "grp": grp, "ren": ren})
    return out


def random_cases(k, seed, maxn=30):
    rnd = random.Random(repr(("c08", seed)))
    out = []
    alphabet = ["A", "B", "C", "D", "E"]
    while len(out) < k:
        n = rnd.randrange(2, maxn + 1)
        par = [0] + [rnd.randrange(max(1, i - 6), i) for i in range(2, n + 1)]
        ty = ["R"] + [rnd.choice(alphabet) for _ in range(n - 1)]
        s, e = [0], [200]
        used = {}
        for i in range(1, n):
            # distinct starts among siblings, no touching windows: starts even, ends odd
            while True:
                a = 2 * rnd.randrange(0, 60)
                if a not in used.setdefault(par[i], set()):
                    used[par[i]].add(a)
                    break
            s.append(a)
            e.append(a + 1 + 2 * rnd.randrange(0, 12))
        ren_from = rnd.sample(alphabet, rnd.randrange(0, 3))
        # listed child types are never types that are renamed themselves (whether a parent looks at its child's
        # original or renamed type is not documented)
        stable = [t for t in alphabet if t not in ren_from]
        ren = [{"from": f, "to": "M" + f, "kids": rnd.sample(stable, rnd.randrange(1, 3))} for f in ren_from]
        free = [t for t in alphabet + ["R"] if t not in ren_from]
        grp = []
        for ptype in rnd.sample(free, min(len(free), rnd.randrange(0, 3))):
            kids = [t for t in alphabet if t not in ren_from]
            for ct in rnd.sample(kids, min(len(kids), rnd.randrange(1, 4))):
                grp.append([ptype, ct, "g%d" % rnd.randrange(1, 3)])
        out.append({"n": n, "par": par, "ty": ty, "s": s, "e": e, "async": rnd.random() < 0.5, "grp": grp, "ren": ren})
    return out


def pipeline_groups(k, seed, maxn=8):
    """groups of 2-3 call trees, each under its own workflow name with its own prior-information / rename maps, to be
    sequenced in ONE run of the real otel_to_pv whose configuration holds the maps per workflow name (the asynchronous
    flag is one setting of the run, so the trees of a group share it)"""
    # only trees whose sequencing depends on their maps, so that a map looked up under the wrong workflow shows
    base = [c for c in random_cases(12 * k, seed + 7919, maxn=maxn) if c["grp"] and any(
        c["ty"][c["par"][i] - 1] == g[0] and c["ty"][i] == g[1] for g in c["grp"] for i in range(1, c["n"]))]
    by = {False: [c for c in base if not c["async"]], True: [c for c in base if c["async"]]}
    out = []
    rnd = random.Random(repr(("c08p", seed)))
    for asy in (False, True):
        cs = by[asy]
        i = 0
        while i < len(cs) and len(out) < k:
            sz = rnd.choice((2, 3))
            grp = cs[i:i + sz]
            i += sz
            if len(grp) < 2:
                break
            out.append([dict(c, job="job-%d" % (j + 1), name=["orders", "billing flow", "Wf-3"][j], app="app-%d" % (j + 1))
                        for j, c in enumerate(grp)])
    return out


def case_tla(c, obs=None):
    def seq(xs, q=False):
        return "<<" + ", ".join(('"%s"' % x) if q else str(x) for x in xs) + ">>"
    o = "<<>>"
    if obs is not None:
        o = "<<" + ", ".join('[id |-> %d, ty |-> "%s", prev |-> {%s}, job |-> "%s", name |-> "%s", app |-> "%s"]' % (
            r["id"], r["ty"], ", ".join(str(x) for x in r["prev"]), r["job"], r["name"], r["app"]) for r in obs) + ">>"
    return ('[n |-> %d, par |-> %s, ty |-> %s, s |-> %s, e |-> %s, async |-> %s, grp |-> {%s}, ren |-> {%s}, '
            'job |-> "%s", name |-> "%s", app |-> "%s", obs |-> %s]') % (
        c["n"], seq(c["par"]), seq(c["ty"], True), seq(c["s"]), seq(c["e"]), tlc.tla(bool(c["async"])),
        ", ".join('<<"%s", "%s", "%s">>' % tuple(g) for g in c["grp"]),
        ", ".join('[from |-> "%s", to |-> "%s", kids |-> {%s}]' % (r["from"], r["to"], ", ".join('"%s"' % k for k in r["kids"]))
                  for r in c["ren"]), c.get("job", JOB), c.get("name", NAME), c.get("app", APP), o)


CFG = "INIT Init\nNEXT Next\nINVARIANT Report\nINVARIANT MachineIsClosedForm\nINVARIANT OncePerSpan\n" \
      "INVARIANT ExpectedIsStructural\n"


def validate(cases, observed, *, parallel=10, stats=None, shard=4000):
    """observed[i]: list of obs records or None.  Returns verdict strings (decided by TLC)."""
    n = len(cases)
    idx = list(range(n))
    nsh = max(1, (n + shard - 1) // shard)
    shards = [idx[i::nsh] for i in range(nsh)]
    runs = [dict(main="Sequencer", cfg=CFG, data={"SeqData": tlc.data_module("SeqData", {
        "Cases": "<<\n " + ",\n ".join(case_tla(cases[i], observed[i]) for i in s) + "\n>>"}, extends="Naturals, Sequences")},
        modules=["Sequencer"], workers=1, allow_violation=False, timeout=2400) for s in shards]
    out = [None] * n
    for s, r in zip(shards, tlc.run_many(runs, parallel)):
        if stats is not None:
            stats["states"] = stats.get("states", 0) + r.distinct
            stats["generated"] = stats.get("generated", 0) + r.generated
        for v in tlc.extract(r.out, "V"):
            out[s[v[1] - 1]] = v[2]
        for v in tlc.extract(r.out, "E"):
            out[s[v[1] - 1]] = "expected-only"
    if any(v is None for v in out):
        raise tlc.TLCError("Sequencer did not judge every case")
    return out
