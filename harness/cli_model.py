"""Binding of spec/Cli.tla to the real command line (B1: behaviours of the specification replayed into the code).

TLC checks the design-level properties of Cli.tla (RefusalIsClean, ExitCodes, OutputKinds, ModelIffOm,
NoIngestKeepsStore, termination) over every selected invocation x world and prints the outcome of each; every printed
outcome is replayed on `python -m tel2puml` in a private directory and compared: exit status, whether the output
directory and the database file exist afterwards, which workflows the store holds, which files were written.

No listed property is decided here (growth of the specification beyond the list, DESIGN 10.9); a difference is
reported as CLI-DRIFT, never as a VIOLATION line.
"""
from __future__ import annotations

import json
import os
import random
import shutil
import sqlite3
import tempfile
from concurrent.futures import ThreadPoolExecutor

import learner
import pipeline
import tlc

WORKFLOWS = ["wf0", "wf 1"]
JOBNAME = "wf0"
INVS = ["TypeOK", "RefusalIsClean", "ExitCodes", "OutputKinds", "ModelIffOm", "NoIngestKeepsStore", "Report"]


def model_runs(maxdev):
    """TLC on Cli.tla: returns (TLCResult, list of (inv, world, outcome))"""
    cfg = "SPECIFICATION Spec\n" + "".join("INVARIANT %s\n" % i for i in INVS) + "PROPERTY Terminates\n"
    data = {"CliData": tlc.data_module("CliData", {"Workflows": tlc.tla(set(WORKFLOWS)), "JobName": tlc.tla(JOBNAME),
                                                   "MaxDev": str(maxdev)}, extends="Naturals")}
    r = tlc.run_tlc("Cli", cfg, data, modules=["Cli"], workers=1, deadlock=False, coverage=True, jvm="throughput")
    runs = [(v[1], v[2], v[3]) for v in tlc.extract(r.out, "RUN")]
    seen, out = set(), []
    for inv, w, o in runs:
        k = repr((sorted(inv.items()), sorted(w.items())))
        if k not in seen:
            seen.add(k)
            out.append((inv, w, o))
    return r, out


# ------------------------------------------------------------------ the template world (built once per call)
def build_template(base):
    """input files, a populated database, model files and PV input folders, produced by the real tool itself"""
    t = os.path.join(base, "template")
    os.makedirs(t)
    rnd = random.Random("cli-model")
    docs = pipeline.dataset(rnd, nwf=(2, 2))
    pipeline.write_case(t, docs, False, pipeline.CUSTOM_MAP)

    def must(args):
        r = pipeline.cli(args, t)
        if r["rc"] != 0:
            raise RuntimeError("template run failed: %s %s" % (args, r))
    must(["-o", os.path.join(t, "pvA"), "otel2pv", "-c", os.path.join(t, "configA.yaml"), "-se"])          # dbA populated
    must(["-o", os.path.join(t, "pvM"), "otel2pv", "-c", os.path.join(t, "configB.yaml"), "-se", "-mc", os.path.join(t, "mapping.yaml")])
    must(["-o", os.path.join(t, "models"), "otel2puml", "-c", os.path.join(t, "configC.yaml"), "-om"])
    for src in ("pvA", "pvM"):
        # the same PV input with one event per file
        d = os.path.join(t, src + "_events", JOBNAME)
        os.makedirs(d)
        k = 0
        for f in sorted(os.listdir(os.path.join(t, src, JOBNAME))):
            with open(os.path.join(t, src, JOBNAME, f)) as fh:
                for ev in json.load(fh):
                    k += 1
                    with open(os.path.join(d, "ev%04d.json" % k), "w") as out:
                        json.dump(ev, out)
    return t


def argv_of(inv, w, d, t):
    out = os.path.join(d, "out")
    a = ["-o", out, inv["cmd"]]
    if inv["cmd"] != "pv2puml":
        cfgp = {"ok": os.path.join(d, "config.yaml"), "missing": os.path.join(d, "nosuch.yaml"),
                "noyaml": os.path.join(d, "config.yml")}.get(inv["cfg"])
        if cfgp:
            a += ["-c", cfgp]
        if inv["ni"]:
            a.append("-ni")
        if inv["ug"]:
            a.append("-ug")
    else:
        kind = ("pvM" if inv["mc"] == "ok" else "pvA") + ("_events" if w["pvkind"] == "events" else "")
        folder = os.path.join(t, kind, JOBNAME)
        files = sorted(os.path.join(folder, f) for f in os.listdir(folder))
        if inv["src"] in ("fp", "both"):
            a += ["-fp", folder]
        if inv["jn"] == "given":
            a += ["-jn", JOBNAME]
        if inv["gbj"]:
            a.append("-group-by-job")
        if inv["src"] in ("files", "both"):
            a += files[:6] if inv["src"] == "both" else files
    if inv["se"]:
        a.append("-se")
    if inv["mc"] != "none":
        a += ["-mc", os.path.join(t, "mapping.yaml") if inv["mc"] == "ok" else os.path.join(d, "nomapping.yaml")]
    if inv["om"]:
        a.append("-om")
    if inv["im"] != "none":
        a += ["-im", os.path.join(t, "models", "%s_model.json" % JOBNAME) if inv["im"] == "ok" else os.path.join(d, "nomodel.json")]
    return a


def observe(inv, w, t, base, k):
    import yaml
    d = os.path.join(base, "run%04d" % k)
    os.makedirs(d)
    db = os.path.join(d, "db.sqlite")
    with open(os.path.join(t, "configA.yaml")) as fh:
        cfg = yaml.safe_load(fh)
    cfg["data_holders"]["sql"]["db_uri"] = "sqlite:///" + db
    for name in ("config.yaml", "config.yml"):
        with open(os.path.join(d, name), "w") as fh:
            yaml.safe_dump(cfg, fh)
    if w["db"] == "populated":
        shutil.copy(os.path.join(t, "dbA.sqlite"), db)
    out = os.path.join(d, "out")
    if w["dir"]:
        os.makedirs(out)
    args = argv_of(inv, w, d, t)
    r = pipeline.cli(args, d)
    files = set()
    if os.path.isdir(out):
        for f in os.listdir(out):
            p = os.path.join(out, f)
            if os.path.isdir(p):
                if any(x.startswith("pv_event_sequence_") for x in os.listdir(p)):
                    files.add(("pv", f.replace(" ", "_")))
                else:
                    files.add(("dir", f))
            elif f.endswith("_model.json"):
                files.add(("model", f[:-len("_model.json")]))
            elif f.endswith(".puml"):
                files.add(("puml", f[:-5]))
            else:
                files.add(("other", f))
    dbw = set()
    if os.path.exists(db):
        con = sqlite3.connect(db)
        try:
            tabs = {x[0] for x in con.execute("select name from sqlite_master where type='table'")}
            if "nodes" in tabs:
                dbw = {x[0] for x in con.execute("select distinct job_name from nodes")}
        finally:
            con.close()
    obs = {"exit": r["rc"], "dirx": os.path.isdir(out), "dbx": os.path.exists(db), "dbw": sorted(dbw), "files": sorted(files),
           "exception": r["exception"], "argv": [x.replace(base, "<base>") for x in args]}
    shutil.rmtree(d, ignore_errors=True)
    return obs


def expected_of(o):
    return {"exit": o["exit"], "dirx": o["dirx"], "dbx": o["dbx"], "dbw": sorted(o["dbw"]),
            "files": sorted((f[0], f[1].replace(" ", "_")) for f in o["files"])}


def conformance(maxdev=1, parallel=14):
    """returns (TLCResult, number of invocations replayed, list of differences)"""
    r, runs = model_runs(maxdev)
    base = tempfile.mkdtemp(prefix="cli-", dir=learner.WORK if os.path.isdir(learner.WORK) else None)
    diffs = []
    try:
        t = build_template(base)
        with ThreadPoolExecutor(max_workers=parallel) as ex:
            obs = list(ex.map(lambda a: observe(a[1][0], a[1][1], t, base, a[0]), enumerate(runs)))
        for (inv, w, o), ob in zip(runs, obs):
            exp = expected_of(o)
            got = {k: (ob[k] if k != "files" else [tuple(x) for x in ob[k]]) for k in exp}
            if got != exp:
                diffs.append({"invocation": dict(inv), "world": dict(w), "argv": ob["argv"], "expected": exp,
                              "observed": {k: ob[k] for k in ("exit", "dirx", "dbx", "dbw", "files", "exception")},
                              "model_stage": o["pc"]})
    finally:
        shutil.rmtree(base, ignore_errors=True)
    return r, len(runs), diffs
