#!/bin/bash
# runs every thorough check in turn against $VERIF_REPO (default /repo); prints one summary line per property
LIST=${@:-C16 C13 C06 C08 C07 C09 C10 C11 C12 C15 C14 C04 C03 C05 C02 C01}
for P in $LIST; do
  S=$(date +%s)
  ./check $P --tier thorough > thorough_$P.log 2>&1
  RC=$?
  echo "$P rc=$RC $(( $(date +%s) - S ))s $(tail -1 thorough_$P.log)"
  grep -E "VIOLATION|what:|case:|MACHINERY|DRIFT" thorough_$P.log | head -12
done
