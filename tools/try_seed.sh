#!/bin/bash
# usage: tools/try_seed.sh <seed-id> <scratch worktree> <out dir of the sub-agent> <property ids to run...>
# Confirms a seeded change (demo fails with it / passes without; pinned tests still pass), keeps it under
# /verif/seeded/<seed-id>/, applies it to /repo, runs the quick checks of the given properties and undoes it.
set -u
SID=$1; WT=$2; OUT=$3; shift 3
DEST=/verif/seeded/$SID
mkdir -p $DEST
git -C $WT diff > $DEST/patch.diff
[ -s $DEST/patch.diff ] || { echo "empty patch"; exit 2; }
DEMO=$(ls $OUT/demo*.py | head -1)
cp $DEMO $DEST/
cp $OUT/notes.md $DEST/notes.md 2>/dev/null
echo "== demo WITH change"; (cd $WT && timeout 600 /venv/bin/python $DEMO $WT > $DEST/demo_with.log 2>&1; echo "exit=$?" | tee $DEST/demo_with.exit)
git -C $WT apply -R $DEST/patch.diff
echo "== demo WITHOUT change"; (cd $WT && timeout 600 /venv/bin/python $DEMO $WT > $DEST/demo_without.log 2>&1; echo "exit=$?" | tee $DEST/demo_without.exit)
git -C $WT apply $DEST/patch.diff
echo "== pinned tests WITH change"; (cd $WT && /venv/bin/python -m pytest -q -p no:cacheprovider --timeout=900 --continue-on-collection-errors 2>&1 | grep -E "passed|failed" | tail -1 | tee $DEST/tests_with.txt)
[ -z "$(git -C /repo status --porcelain)" ] || { echo "/repo is dirty"; exit 2; }
git -C /repo apply $DEST/patch.diff || { echo "patch does not apply to /repo"; exit 2; }
for P in "$@"; do
  echo "== check $P on /repo with the change"
  (cd /verif && ./check $P --tier quick > $DEST/check_$P.log 2>&1; echo "exit=$?" | tee $DEST/check_$P.exit; grep -E "VIOLATION|what:|PASS|FAIL|KNOWN|MACHINERY" $DEST/check_$P.log | head -8)
done
git -C /repo checkout -- . && git -C /repo status --porcelain
