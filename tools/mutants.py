#!/venv/bin/python
"""Hand-written mutants of xtuml/otel2puml (the kinds of change listed under "Catches" in DESIGN section 4), applied one
at a time to a scratch worktree outside /repo and /verif; the quick checks of the named properties are run against it
(VERIF_REPO).  Results are appended to /verif/mutants/results.jsonl.  A mutant is *killed* when a named check exits 1.

usage: tools/mutants.py [name-prefix ...]"""
import json
import os
import subprocess
import sys
import time

VERIF = os.path.dirname(os.path.dirname(os.path.abspath(__file__)))
WT = "/tmp/verif_mutant_wt"
SD = "tel2puml/otel_to_pv/data_holders/sql_data_holder/sql_dataholder.py"
SEQ = "tel2puml/otel_to_pv/sequence_otel.py"
M = [
    # (name, file, old, new, properties, count)   count: which occurrence (1-based) or 0 = must be unique
    ("sd-batch-gt", SD, "if len(self.node_models_to_save) >= self.batch_size:", "if len(self.node_models_to_save) > self.batch_size + 1:", ["C10"], 0),
    ("sd-filter-keep-dups-in-store", SD, "            if node.event_id not in existing_event_ids\n", "            if True\n", ["C10"], 0),
    ("sd-rel-from-unfiltered", SD, "        for node in filtered_nodes:\n            self._update_node_relations_from_node(node)", "        for node in self.node_models_to_save:\n            self._update_node_relations_from_node(node)", ["C10"], 0),
    ("sd-no-rel-reset", SD, "        self.node_models_to_save = filtered_nodes\n        self.node_relationships_to_save = []", "        self.node_models_to_save = filtered_nodes", ["C10"], 0),
    ("sd-window-start-only", SD, "                        | (\n                            (NodeModel.end_timestamp <= time_window[1])\n                            & (NodeModel.end_timestamp >= time_window[0])\n                        )\n", "", ["C11"], 0),
    ("sd-window-strict", SD, "(NodeModel.start_timestamp <= time_window[1])\n                            & (NodeModel.start_timestamp >= time_window[0])", "(NodeModel.start_timestamp < time_window[1])\n                            & (NodeModel.start_timestamp > time_window[0])", ["C11"], 0),
    ("sd-names-from-any-span", SD, "                NodeModel.parent_event_id.is_(None)\n            )\n            stmt_2 = (\n                sa.update(NodeModel)", "                NodeModel.parent_event_id.isnot(None)\n            )\n            stmt_2 = (\n                sa.update(NodeModel)", ["C11"], 0),
    ("sd-inconsistent-child-side", SD, "NODE_ASSOCIATION.c.parent_id == NodeModel.event_id\n                        )\n                    )\n                )\n                .distinct()", "NODE_ASSOCIATION.c.child_id == NodeModel.event_id\n                        )\n                    )\n                )\n                .distinct()", ["C11"], 0),
    ("sd-hash-unsorted", SD, "            sorted(\n                compute_graph_hash_from_event_ids(child, node_to_children)\n                for child in children\n            )", "            list(\n                compute_graph_hash_from_event_ids(child, node_to_children)\n                for child in children\n            )", ["C09"], 0),
    ("sd-hash-ignores-type", SD, "    string_to_hash = node.event_type\n", "    string_to_hash = \"n\"\n", ["C09"], 0),
    ("sd-page-step", SD, "        start_row += batch_size\n", "        start_row += batch_size + 1\n", ["C09"], 0),
    ("sd-group-by-hash-only", SD, "sa.select(JobHash.job_name, JobHash.job_id).group_by(\n            JobHash.job_name, JobHash.job_hash\n        )", "sa.select(JobHash.job_name, JobHash.job_id).group_by(\n            JobHash.job_hash\n        )", ["C09"], 0),
    ("sd-stream-order-jobid-only", SD, "query.order_by(NodeModel.job_name, NodeModel.job_id).yield_per(", "query.order_by(NodeModel.job_id).yield_per(", ["C12"], 0),
    ("sd-stream-filter-name-only", SD, "                (NodeModel.job_name == job_name)\n                & (NodeModel.job_id.in_(job_ids))", "                (NodeModel.job_name == job_name)", ["C12"], 0),
    ("sd-children-from-parents", SD, "child_event_ids=[child.event_id for child in node.children],", "child_event_ids=[child.event_id for child in node.children][:2],", ["C12"], 0),
    ("sd-hashes-not-cleared", SD, "        session.execute(sa.delete(JobHash))\n", "        pass\n", ["C15"], 0),
    ("seq-sort-by-end", SEQ, "sorted(group, key=lambda x: x.start_timestamp)", "sorted(group, key=lambda x: x.end_timestamp)", ["C08"], 0),
    ("seq-groups-sort-by-end", SEQ, "            key=lambda x: x[0].start_timestamp,", "            key=lambda x: x[0].end_timestamp,", ["C08"], 0),
    ("seq-overlap-le", SEQ, "if max_timestamp < group_first_event.start_timestamp:", "if max_timestamp <= group_first_event.start_timestamp + 60000000000:", ["C08"], 0),
    ("seq-prev-not-reset", SEQ, "        previous_event_ids = [group_event.event_id for group_event in group]\n", "        previous_event_ids = previous_event_ids + [group_event.event_id for group_event in group]\n", ["C08"], 0),
    ("seq-rename-all-children", SEQ, "            otel_event.event_type = (\n                event_type_map_information.mapped_event_type\n            )\n            break", "            child_event.event_type = (\n                event_type_map_information.mapped_event_type\n            )\n            break", ["C08"], 0),
    ("seq-timestamp-start", SEQ, "timestamp=unix_nano_to_pv_string(event.end_timestamp),", "timestamp=unix_nano_to_pv_string(event.start_timestamp),", ["C08"], 0),
    ("utils-pv-string-truncate-ms", "tel2puml/utils.py", 'return date_time.strftime("%Y-%m-%dT%H:%M:%S.%fZ")', 'return date_time.strftime("%Y-%m-%dT%H:%M:%S.%f")[:-3] + "000Z"', ["C16", "C08"], 0),
    ("pvtel-drop-micro", "tel2puml/pv_to_tel.py", "unix_nano = unix_seconds * 10**9 + dt.microsecond * 10**3", "unix_nano = unix_seconds * 10**9 + (dt.microsecond // 1000) * 10**6", ["C16"], 0),
    ("events-subset-ge", "tel2puml/events.py", "            count == other.get(event, -1) for event, count in self.items()", "            count <= other.get(event, -1) for event, count in self.items()", ["C06", "C01", "C02"], 0),
    ("events-load-no-in-sets", "tel2puml/events.py", "        for eventSetList in eventInput.incomingEventSets:\n            event.in_event_sets.add(", "        for eventSetList in eventInput.incomingEventSets[:1]:\n            event.in_event_sets.add(", ["C04"], 0),
    ("events-load-count-one", "tel2puml/events.py", "                        for eventSet in eventSetList\n                        for _ in range(eventSet.count)\n                    ]\n                )\n            )\n        for eventSetList in eventInput.incomingEventSets", "                        for eventSet in eventSetList\n                        for _ in range(1)\n                    ]\n                )\n            )\n        for eventSetList in eventInput.incomingEventSets", ["C04"], 0),
    ("logic-or-always", "tel2puml/logic_detection.py", "    if len(non_tau_children) == 0:\n        return True\n", "    if len(non_tau_children) <= 1:\n        return True\n", ["C06", "C02"], 0),
    ("puml-or-closes-as-fork", "tel2puml/puml_graph.py", '("END", "OR"): (("end split",), -1, 1),', '("END", "OR"): (("end fork",), -1, 1),', ["C05"], 0),
    ("puml-xor-indent", "tel2puml/puml_graph.py", '("PATH", "XOR"): ((\'case ("")\',), 0, 1),', '("PATH", "XOR"): ((\'case ("")\',), 0, 0),', ["C05"], 0),
    ("walk-or-merge-unchecked", "tel2puml/pv_to_puml/walk_puml_graph/walk_puml_logic_graph.py", 'if self.logic_node.operator not in ["AND", "OR"]:', 'if self.logic_node.operator not in ["AND"]:', ["C01", "C02"], 0),
    ("walk-merge-counter-ge", "tel2puml/pv_to_puml/walk_puml_graph/walk_puml_logic_graph.py", "if logic_block.merge_counter > len(logic_block.merge_nodes):", "if logic_block.merge_counter >= len(logic_block.merge_nodes):", ["C01", "C02"], 0),
    ("loop-end-event-unfiltered", "tel2puml/loop_detection/sub_graph_of_loop.py", "                    if event_set.to_frozenset().issubset(loop_event_types):\n", "                    if True:\n", ["C01", "C02", "C05"], 0),
    ("loop-start-event-unfiltered", "tel2puml/loop_detection/sub_graph_of_loop.py", "            if event_set.to_frozenset().issubset(start_event_types):\n", "            if True:\n", ["C01", "C02", "C07"], 0),
    ("loop-keep-unreachable", "tel2puml/loop_detection/sub_graph_of_loop.py", "    sub_graph.remove_nodes_from(nodes_without_path_back)\n", "    pass\n", ["C07"], 0),
    ("ingest-no-in-sets-for-forks", "tel2puml/pv_to_puml/data_ingestion.py", "        events[event_type].update_in_event_sets(\n            get_events_set_from_events_list(event.previous_events)\n        )", "        events[event_type].update_in_event_sets(\n            get_events_set_from_events_list(event.previous_events[:1])\n        )", ["C01", "C02"], 0),
    ("otelpv-skip-clean-names", "tel2puml/otel_to_pv/otel_to_pv.py", "    data_holder.update_job_names_by_root_span()\n", "    pass\n", ["C11", "C12"], 0),
    ("otelpv-clean-order", "tel2puml/otel_to_pv/otel_to_pv.py", "    data_holder.remove_inconsistent_jobs()\n", "    pass\n", ["C11"], 0),
    ("otelpv-save-drops-prev", "tel2puml/otel_to_pv/otel_to_pv.py", "                    for key, value in pv_event.items()\n", "                    for key, value in pv_event.items() if value\n", ["C14"], 0),
    ("jq-priority-comma", "tel2puml/otel_to_pv/data_sources/json_data_source/json_jq_converter.py", '" // "', '" , "', ["C13"], 0),
    ("jq-join-dash", "tel2puml/otel_to_pv/data_sources/json_data_source/json_jq_converter.py", 'join("_") end)', 'join("-") end)', ["C13"], 0),
]


def sh(cmd, **kw):
    return subprocess.run(cmd, shell=True, capture_output=True, text=True, **kw)


def main():
    want = sys.argv[1:]
    if not os.path.isdir(WT):
        r = sh("git -C /repo worktree add -q --detach %s HEAD" % WT)
        if r.returncode:
            print(r.stderr)
            return 2
    out = open(os.path.join(VERIF, "mutants", "results.jsonl"), "a")
    try:
        for name, f, old, new, props, _cnt in M:
            if old is None or (want and not any(name.startswith(w) for w in want)):
                continue
            sh("git -C %s checkout -q -- . && git -C %s checkout -q --detach $(git -C /repo rev-parse HEAD)" % (WT, WT))
            path = os.path.join(WT, f)
            src = open(path).read()
            if src.count(old) != 1:
                rec = {"mutant": name, "error": "pattern occurs %d times" % src.count(old)}
                print(rec)
                out.write(json.dumps(rec) + "\n")
                continue
            open(path, "w").write(src.replace(old, new))
            t = sh("cd %s && /venv/bin/python -m pytest -q -p no:cacheprovider --timeout=900 --continue-on-collection-errors 2>&1 | grep -E 'passed|failed' | tail -1" % WT)
            tests = t.stdout.strip()
            res = {}
            for p in props:
                t0 = time.time()
                r = sh("cd %s && VERIF_REPO=%s ./check %s --tier quick" % (VERIF, WT, p))
                sigs = sorted({ln.strip()[6:] for ln in r.stdout.splitlines() if ln.strip().startswith("what:")})
                res[p] = {"exit": r.returncode, "signatures": sigs[:6], "wall_s": round(time.time() - t0)}
            rec = {"mutant": name, "file": f, "pinned_tests": tests, "still_passes_pinned_tests": tests.startswith("2 failed, 120 passed"),
                   "checks": res, "killed": any(v["exit"] == 1 for v in res.values()), "repo_head": sh("git -C /repo rev-parse --short HEAD").stdout.strip()}
            print(json.dumps(rec))
            out.write(json.dumps(rec) + "\n")
            out.flush()
    finally:
        sh("git -C /repo worktree remove --force %s" % WT)
        sh("rm -rf %s/replays/*" % VERIF)
    return 0


if __name__ == "__main__":
    sys.exit(main())
