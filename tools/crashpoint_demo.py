#!/venv/bin/python
"""Crash-point exploration beyond the listed properties (DESIGN 10.6).

1. TLC explores spec/Store.tla with Crashes = TRUE (the process may be killed between the internal steps of a flush)
   and reports the shortest history violating HealedByReingest: a completed re-ingestion of the same files does not
   restore the parent link of a span whose node row was committed before the kill.
2. The same history is replayed on the real SQLDataHolder: run 1 is killed between the node commit and the association
   commit (a harness subclass calls os._exit there), run 2 ingests the same stream again and runs the whole pipeline.
Prints what the model predicts and what the code does."""
import os
import sys

sys.path.insert(0, os.path.join(os.path.dirname(os.path.abspath(__file__)), "..", "harness"))
import store  # noqa: E402

u = [store.span("e1"), store.span("e2", "e1", ty="B")]
r = store.exhaustive(u, maxlen=2, batches=(1, 2, 5), maxruns=2, clean_on=False, same_files=True, crashes=True,
                     invs=["TypeOK", "UniqueEid", "HealedByReingest"], workers=4)
print("TLC (Crashes = TRUE): %d distinct states, violated: %s" % (r.distinct, r.violated))
scn = {"B": 5, "buf": 0, "runs": [{"ing": True, "ug": False, "spans": u, "only_ingest": True, "kill_before_assoc_commit": 1},
                                  {"ing": True, "ug": False, "spans": u}]}
log = store.run_scenarios([scn])[0]
for d in log:
    print("%-7s run=%d status=%-8s nodes=%s assoc=%s %s" % (d["op"], d["run"], d["post"]["status"],
                                                          sorted(n["eid"] for n in d["post"]["nodes"]), d["post"]["assoc"],
                                                          d.get("error", "")))
last = [d for d in log if d["op"] == "exit"][-1]["post"]
missing = [n["eid"] for n in last["nodes"] if n["par"] != "-" and [n["par"], n["eid"]] not in last["assoc"]]
print("after the completed re-ingestion, stored spans without their parent link:", missing)
sys.exit(0)
