#!/venv/bin/python
"""spec/Cli.tla: model checking + replay of every selected invocation on the real command line.
usage: tools/cli_conformance.py [maxdev]     exit 0: no difference; 1: CLI-DRIFT lines printed; 2: machinery failure"""
import json
import os
import sys
import time

HERE = os.path.dirname(os.path.abspath(__file__))
sys.path.insert(0, os.path.join(os.path.dirname(HERE), "harness"))
import cli_model  # noqa: E402
import tlc  # noqa: E402


def main():
    maxdev = int(sys.argv[1]) if len(sys.argv) > 1 else 1
    t0 = time.time()
    try:
        r, n, diffs = cli_model.conformance(maxdev)
    except Exception as e:  # noqa: BLE001
        print("MACHINERY FAILURE: %r" % (e,))
        return 2
    for v in r.violated:
        print("MODEL: spec/Cli.tla violates %s" % v)
    for d in diffs:
        print("CLI-DRIFT: " + json.dumps(d)[:1500])
    acts = tlc.action_counts(r.out, "Cli", ["Parse", "Validate", "MkDir", "LoadModels", "Store", "Produce"])
    out = {"spec": "spec/Cli.tla", "max_deviations": maxdev, "states": r.distinct, "transitions": r.generated,
           "invocations_replayed_on_the_real_command_line": n, "differences": len(diffs), "model_violations": r.violated,
           "action_counts": acts, "wall_s": round(time.time() - t0, 1)}
    os.makedirs(os.path.join(os.path.dirname(HERE), "extras"), exist_ok=True)
    with open(os.path.join(os.path.dirname(HERE), "extras", "cli_conformance.json"), "w") as fh:
        json.dump(out, fh, indent=1)
    print(json.dumps(out))
    return 1 if (diffs or r.violated) else 0


if __name__ == "__main__":
    sys.exit(main())
