#!/bin/bash
# usage: tools/all_quick.sh <seed>...   runs every quick check for each seed against $VERIF_REPO (default /repo)
for SEED in "$@"; do
  for P in C01 C02 C03 C04 C05 C06 C07 C08 C09 C10 C11 C12 C13 C14 C15 C16; do
    S=$(date +%s)
    VERIF_SEED=$SEED ./check $P --tier quick > quick_${P}_$SEED.log 2>&1
    RC=$?
    echo "seed=$SEED $P rc=$RC $(( $(date +%s) - S ))s $(grep -c KNOWN-FINDING quick_${P}_$SEED.log) known"
    [ $RC -ne 0 ] && grep -E "VIOLATION|what:|case:|MACHINERY|rror" quick_${P}_$SEED.log | head -12
  done
done
