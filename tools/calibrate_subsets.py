#!/venv/bin/python
"""Development-time calibration (never run by a check): learns from every proper subset of the small job sets of the
C01 case list on the *unchanged* tree and rewrites the explicit entries F-C01d:<definition> of known_findings.json:
per definition the digests of the job subsets whose learned diagram rejects an input job because a fork was left
unmerged (continuation copied into detach'ed branches).  Failures of any other kind are printed, not listed.

usage: tools/calibrate_subsets.py quick|thorough"""
import json
import os
import sys

HERE = os.path.dirname(os.path.abspath(__file__))
sys.path.insert(0, os.path.join(HERE, "..", "harness"))
import common  # noqa: E402
import findings  # noqa: E402
import jobdef  # noqa: E402
import learn_engine as le  # noqa: E402
from checks import c01  # noqa: E402

tier = sys.argv[1] if len(sys.argv) > 1 else "quick"
named, ks, npres = c01.case_list(tier, 0)
det = {n for n, _d in le.corpus_defs() + le.f_defs(5 if tier == "quick" else 6)}
subsets = {"all_upto": 7, "sampled": 0, "deterministic_names": det}
lr = le.LearnRun(named, ks, [le.presentation(0, 0)], seed=0, max_jobs=400 if tier == "quick" else 500, subsets=subsets).run()
emitted, traces, owner = [], [], []
for ri, rec in enumerate(lr.records):
    if rec["ast"] is None or rec.get("sub") is None:
        continue
    emitted.append(rec["ast"])
    for j in lr.rec_jobs(rec):
        traces.append((len(emitted) - 1, j))
        owner.append(ri)
acc = jobdef.validate(emitted, traces)
bad = sorted({owner[n] for n in range(len(traces)) if n not in acc})
per_def, other = {}, []
for ri in bad:
    rec = lr.records[ri]
    d = lr.defs[rec["di"]]
    per_def.setdefault(rec["name"], set()).add(lr.subset_digest(rec))
    if not findings.RULES["unmerged_fork_tail_duplicated"](d, None, {"learned": [rec["ast"]]}):
        other.append((rec["name"], rec["sub"]))
print("subset records:", sum(1 for r in lr.records if r.get("sub") is not None), "failing:", len(bad),
      "definitions:", len(per_def), "other failures:", len(other))
for o in other[:20]:
    print("  other:", o)
path = common.FINDINGS
data = json.load(open(path))
tag = "F-C01d:%s:" % tier
data["findings"] = [f for f in data["findings"] if not f["id"].startswith(tag)]
for name in sorted(per_def):
    data["findings"].append({"id": tag + name, "property": "C01", "status": "open",
                             "what": "incomplete evidence (F-C01d): for %d proper subset(s) of the job set of %s the learned diagram rejects an "
                                     "input job (a fork is left unmerged / merged at the wrong event)" % (len(per_def[name]), name),
                             "match": {"key": name, "signature": "reject/subset", "exact": True,
                                       "digests": sorted(per_def[name])}})
json.dump(data, open(path, "w"), indent=1)
print("wrote", len(per_def), "entries")
