#!/bin/bash
# Re-runs the quick check of every seeded change's property against a scratch copy of the repository with the change
# applied (VERIF_REPO must point to a scratch worktree of /repo's HEAD; default: creates one under /tmp).
# Prints one line per seed: caught / MISSED.   ONLY=<regex> restricts the seeds (e.g. ONLY='^C1[0-6]').
WT=${VERIF_REPO:-/tmp/verif_reseed_wt}
if [ ! -d "$WT" ]; then git -C /repo worktree add -q --detach $WT HEAD || exit 2; MADE=1; fi
for D in /verif/seeded/*/; do
  SID=$(basename $D)
  if [ -n "${ONLY:-}" ] && ! [[ $SID =~ $ONLY ]]; then continue; fi
  P=$(python3 -c "import json;print(json.load(open('$D/meta.json'))['property'])")
  git -C $WT checkout -q -- . 
  if ! git -C $WT apply $D/patch.diff 2>/dev/null; then echo "$SID $P patch-does-not-apply"; continue; fi
  S=$(date +%s)
  VERIF_REPO=$WT ./check $P --tier quick > reseed_$SID.log 2>&1
  RC=$?
  SIG=$(grep "what:" reseed_$SID.log | sort | uniq -c | sort -rn | head -2 | tr -s ' ' | tr '\n' ';')
  if [ $RC -eq 1 ]; then echo "$SID $P caught ($(( $(date +%s) - S ))s) $SIG"; else echo "$SID $P MISSED rc=$RC"; fi
  git -C $WT checkout -q -- .
done
[ -n "$MADE" ] && git -C /repo worktree remove --force $WT
