#!/bin/bash
# usage: tools/try_seed2.sh <seed-id> <scratch worktree with the change uncommitted> <out dir of the sub-agent> <property ids...>
# Like try_seed.sh, but never touches /repo: the quick checks run against the scratch worktree (VERIF_REPO), so several
# seeds can be tried while other checks run against /repo.  Evidence files written by these runs are NOT evidence for
# /repo - re-run the checks on /repo before committing evidence.
set -u
SID=$1; WT=$2; OUT=$3; shift 3
DEST=/verif/seeded/$SID
mkdir -p $DEST
git -C $WT diff > $DEST/patch.diff
[ -s $DEST/patch.diff ] || { echo "empty patch"; exit 2; }
DEMO=$(ls $OUT/demo*.py | head -1)
cp $DEMO $DEST/
[ -d $OUT/stub ] && cp -r $OUT/stub $DEST/
cp $OUT/notes.md $DEST/notes.md 2>/dev/null
echo "== demo WITH change"; (cd $OUT && timeout 600 /venv/bin/python $DEMO $WT > $DEST/demo_with.log 2>&1; echo "exit=$?" | tee $DEST/demo_with.exit)
git -C $WT apply -R $DEST/patch.diff
echo "== demo WITHOUT change"; (cd $OUT && timeout 600 /venv/bin/python $DEMO $WT > $DEST/demo_without.log 2>&1; echo "exit=$?" | tee $DEST/demo_without.exit)
git -C $WT apply $DEST/patch.diff
echo "== pinned tests WITH change"; (cd $WT && /venv/bin/python -m pytest -q -p no:cacheprovider --timeout=900 --continue-on-collection-errors 2>&1 | grep -E "passed|failed" | tail -1 | tee $DEST/tests_with.txt)
for P in "$@"; do
  echo "== check $P on the worktree with the change"
  (cd /verif && VERIF_REPO=$WT ./check $P --tier quick > $DEST/check_$P.log 2>&1; echo "exit=$?" | tee $DEST/check_$P.exit; grep -E "VIOLATION|what:|PASS|FAIL|MACHINERY" $DEST/check_$P.log | sort | uniq -c | sort -rn | head -8)
done
