#!/bin/sh
# Offline setup: nothing is compiled or downloaded.  Parse every specification module with SANY
# and import-check the harness.
set -e
cd "$(dirname "$0")"
mkdir -p work evidence replays
for f in spec/*.tla; do
  (cd spec && java -cp /opt/veriftools/tla/tla2tools.jar:/opt/veriftools/tla/CommunityModules-deps.jar tla2sany.SANY "$(basename "$f")") > work/sany.log 2>&1 \
    || { cat work/sany.log; echo "SANY failed on $f"; exit 1; }
  if grep -q "Semantic errors\|Parse Error\|Fatal\|\*\*\* Errors" work/sany.log; then cat work/sany.log; echo "SANY failed on $f"; exit 1; fi
done
/venv/bin/python - <<'PY'
import sys
sys.path.insert(0, "harness")
import tlc, puml, fragment, jobdef, pumlsyn, learner, learn_engine, common, findings, store, storegen, seqr, gates, fieldmap, pipeline, storecli  # noqa
from checks import c01, c02, c03, c04, c05, c06, c07, c08, c13, c14, c09, c10, c11, c12, c15, c16  # noqa
print("harness imports ok")
PY
echo "setup ok"
