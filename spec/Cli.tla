-------------------------------- MODULE Cli --------------------------------
(***************************************************************************)
(* One invocation of the command line (python -m tel2puml) as a sequence   *)
(* of stages over a small world: the database file, the output directory   *)
(* and the files in it.  It covers what no listed property states on its   *)
(* own but all of them rely on: which options each sub-command accepts,    *)
(* that a refused invocation leaves no trace, which stages a flag switches *)
(* on, and which kinds of files a run writes                               *)
(*   (tel2puml/__main__.py: argparse tree, generate_component_options,     *)
(*    main_handler; tel2puml/tel2puml_types.py: OtelToPVArgs, PvToPumlArgs,*)
(*    GlobalArgs; tel2puml/otel_to_puml.py: otel_to_puml;                  *)
(*    tel2puml/otel_to_pv/otel_to_pv.py; pv_to_puml.py).                   *)
(*                                                                         *)
(* Stages (one action each, in the order of the code):                     *)
(*   Parse      argparse: options unknown to the sub-command, a missing    *)
(*              -c, both or none of -fp / file paths   -> exit status 2    *)
(*   Validate   pydantic models of the arguments: files that must exist,   *)
(*              the .yaml extension                    -> exit status 1    *)
(*   MkDir      the output directory is created if absent                  *)
(*   LoadModels every -im file is read                                     *)
(*   Store      otel commands: the data holder is opened (the database     *)
(*              file comes into being), data is ingested unless -ni        *)
(*   Produce    what the command writes: PV job files per workflow         *)
(*              (otel2pv -se), a diagram per workflow (otel2puml) or one   *)
(*              diagram under the given name (pv2puml), a model next to    *)
(*              each diagram with -om                                      *)
(*   a failure while producing (pv2puml on files of the other kind than    *)
(*   -group-by-job expects) ends with status 1 after MkDir                 *)
(*                                                                         *)
(* TLC enumerates every invocation of the families below in every world    *)
(* and prints the outcome; the harness (harness/cli_model.py) replays each *)
(* one on the real command line and compares exit status, database,        *)
(* directory and files (binding B1: behaviours of the specification        *)
(* replayed into the code).                                                *)
(***************************************************************************)
EXTENDS Naturals, Sequences, FiniteSets, TLC, CliData
\* CliData (generated) defines
\*   Workflows   the workflow names occurring in the OpenTelemetry input files
\*   JobName     the name passed with -jn
\*   MaxDev      how many deviations from a legal command line an invocation may combine

VARIABLES pc, inv, w0, dbx, dbw, dirx, files, exit
vars == <<pc, inv, w0, dbx, dbw, dirx, files, exit>>

(* ---------------- invocations ---------------- *)
Cmds == {"otel2puml", "otel2pv", "pv2puml"}
Invocation == [cmd : Cmds,
               cfg : {"ok", "missing", "noyaml", "absent", "na"},     \* -c: existing .yaml / no such file / existing .yml / not given
               ni : BOOLEAN, ug : BOOLEAN, se : BOOLEAN,
               mc : {"none", "ok", "missing"},                        \* -mc
               om : BOOLEAN,
               im : {"none", "ok", "missing"},                        \* -im
               src : {"fp", "files", "both", "none", "na"},           \* pv2puml input
               gbj : BOOLEAN,
               jn : {"given", "default", "na"}]
World == [db : {"fresh", "populated"},        \* the database file: absent / left by an earlier ingesting run
          dir : BOOLEAN,                       \* the output directory exists already
          pvkind : {"jobs", "events"}]         \* the PV input files hold one job (a list) / one event each

IsOtel(i) == i.cmd \in {"otel2puml", "otel2pv"}
WellFormed(i) == IF IsOtel(i) THEN i.cfg # "na" /\ i.src = "na" /\ ~i.gbj /\ i.jn = "na"
                 ELSE i.cfg = "na" /\ ~i.ni /\ ~i.ug /\ ~i.se /\ i.src # "na" /\ i.jn # "na"

\* deviations from a legal command line
Devs(i) == {d \in {"cfg", "se", "mc", "mcmissing", "om", "im", "immissing", "src"} :
              CASE d = "cfg" -> IsOtel(i) /\ i.cfg # "ok"
                [] d = "se" -> i.cmd = "otel2puml" /\ i.se
                [] d = "mc" -> i.cmd = "otel2puml" /\ i.mc # "none"
                [] d = "mcmissing" -> i.cmd # "otel2puml" /\ i.mc = "missing"
                [] d = "om" -> i.cmd = "otel2pv" /\ i.om
                [] d = "im" -> i.cmd = "otel2pv" /\ i.im # "none"
                [] d = "immissing" -> i.cmd # "otel2pv" /\ i.im = "missing"
                [] d = "src" -> i.src \in {"both", "none"}}
\* secondary dimensions: at most one of them leaves its base value in one invocation
Secondary(i, w) == {s \in {"ug", "dir", "jn", "im", "mc"} :
                      CASE s = "ug" -> i.ug
                        [] s = "dir" -> w.dir
                        [] s = "jn" -> i.jn = "default"
                        [] s = "im" -> i.cmd = "pv2puml" /\ i.im = "ok"
                        [] s = "mc" -> i.cmd = "pv2puml" /\ i.mc = "ok"}
\* base values of the primary dimensions (those explored as a full product when the command line is legal)
Base(i, w) == /\ ~i.ni /\ ~i.gbj /\ w.pvkind = "jobs" /\ i.src # "files"
              /\ (i.cmd = "otel2puml" => ~i.om /\ i.im # "ok")
              /\ (i.cmd = "otel2pv" => ~i.se /\ i.mc # "ok")
              /\ (i.cmd = "pv2puml" => ~i.om)
Selected(i, w) == /\ WellFormed(i)
                  /\ (IsOtel(i) => w.pvkind = "jobs")
                  /\ (i.cmd = "pv2puml" => w.db = "fresh")
                  /\ Cardinality(Devs(i)) <= MaxDev
                  /\ Cardinality(Secondary(i, w)) <= 1
                  /\ (Devs(i) # {} => Secondary(i, w) = {} /\ Base(i, w))

(* ---------------- the world ---------------- *)
Kinds == {"puml", "model", "pv"}
Init == /\ inv \in Invocation /\ w0 \in World /\ Selected(inv, w0)
        /\ pc = "parse" /\ exit = 0
        /\ dbx = (w0.db = "populated") /\ dbw = IF w0.db = "populated" THEN Workflows ELSE {}
        /\ dirx = w0.dir /\ files = {}

Stop(code, at) == pc' = at /\ exit' = code /\ UNCHANGED <<inv, w0, dbx, dbw, dirx, files>>
Go(next) == pc' = next /\ UNCHANGED <<inv, w0, dbx, dbw, dirx, files, exit>>

\* argparse
ParseOk == CASE inv.cmd = "otel2puml" -> inv.cfg # "absent" /\ ~inv.se /\ inv.mc = "none"
             [] inv.cmd = "otel2pv" -> inv.cfg # "absent" /\ ~inv.om /\ inv.im = "none"
             [] inv.cmd = "pv2puml" -> inv.src \in {"fp", "files"}
Parse == pc = "parse" /\ IF ParseOk THEN Go("validate") ELSE Stop(2, "refused")

\* pydantic models of the arguments; nothing has been touched yet
ValidateOk == /\ (IsOtel(inv) => inv.cfg = "ok")
              /\ inv.mc # "missing" /\ inv.im # "missing"
Validate == pc = "validate" /\ IF ValidateOk THEN Go("mkdir") ELSE Stop(1, "refused")

MkDir == /\ pc = "mkdir" /\ dirx' = TRUE /\ pc' = "models"
         /\ UNCHANGED <<inv, w0, dbx, dbw, files, exit>>
LoadModels == pc = "models" /\ Go(IF IsOtel(inv) THEN "store" ELSE "produce")

\* the data holder is opened (create_all) and, unless -ni, the input files are ingested
Store == /\ pc = "store"
         /\ dbx' = TRUE
         /\ dbw' = IF inv.ni THEN dbw ELSE Workflows
         /\ pc' = "produce"
         /\ UNCHANGED <<inv, w0, dirx, files, exit>>

Named == IF inv.jn = "given" THEN JobName ELSE "default_name"
PvInputFits == inv.gbj <=> (w0.pvkind = "events")
Produce ==
    /\ pc = "produce"
    /\ CASE inv.cmd = "otel2pv" ->
              /\ files' = IF inv.se THEN {<<"pv", w>> : w \in dbw} ELSE {}
              /\ pc' = "done" /\ exit' = 0
         [] inv.cmd = "otel2puml" ->
              /\ files' = {<<"puml", w>> : w \in dbw} \cup (IF inv.om THEN {<<"model", w>> : w \in dbw} ELSE {})
              /\ pc' = "done" /\ exit' = 0
         [] inv.cmd = "pv2puml" ->
              IF PvInputFits
                THEN /\ files' = {<<"puml", Named>>} \cup (IF inv.om THEN {<<"model", Named>>} ELSE {})
                     /\ pc' = "done" /\ exit' = 0
                ELSE /\ files' = {} /\ pc' = "failed" /\ exit' = 1
    /\ UNCHANGED <<inv, w0, dbx, dbw, dirx>>

Next == Parse \/ Validate \/ MkDir \/ LoadModels \/ Store \/ Produce
Spec == Init /\ [][Next]_vars /\ WF_vars(Next)

Final == pc \in {"done", "refused", "failed"}

(* ---------------- properties of the design ---------------- *)
TypeOK == /\ pc \in {"parse", "validate", "mkdir", "models", "store", "produce", "done", "refused", "failed"}
          /\ exit \in {0, 1, 2} /\ files \subseteq (Kinds \X (Workflows \cup {JobName, "default_name"}))
\* an invocation that is refused leaves no trace: no directory, no database, no file
RefusalIsClean == (pc = "refused") => (dirx = w0.dir /\ dbx = (w0.db = "populated") /\ files = {}
                                       /\ dbw = IF w0.db = "populated" THEN Workflows ELSE {})
\* exit status: 0 exactly for completed runs, 2 exactly for command lines argparse rejects
ExitCodes == Final => /\ (exit = 0) = (pc = "done")
                      /\ (exit = 2) = ~ParseOk
\* what kind of file a command can write
OutputKinds == /\ (inv.cmd = "otel2pv" => \A f \in files : f[1] = "pv")
               /\ (inv.cmd # "otel2pv" => \A f \in files : f[1] \in {"puml", "model"})
               /\ (~inv.se => \A f \in files : f[1] # "pv")
\* -om: a model next to every diagram, and only then
ModelIffOm == (pc = "done" /\ inv.cmd # "otel2pv") =>
                 {f[2] : f \in {f \in files : f[1] = "model"}} = IF inv.om THEN {f[2] : f \in {f \in files : f[1] = "puml"}} ELSE {}
\* -ni never changes what the store holds; without it the store holds the input afterwards
NoIngestKeepsStore == (pc = "done" /\ IsOtel(inv)) => dbw = IF inv.ni /\ w0.db = "fresh" THEN {} ELSE Workflows
\* every run ends
Terminates == <>Final

(* ---------------- the outcome of every selected invocation, for replay (always TRUE) ---------------- *)
Report == Final => PrintT(<<"RUN", inv, w0, [exit |-> exit, dirx |-> dirx, dbx |-> dbx, dbw |-> dbw, files |-> files, pc |-> pc]>>)
=============================================================================
