------------------------------ MODULE StoreObs ------------------------------
(***************************************************************************)
(* The listed store properties evaluated on executions of the real code.   *)
(*                                                                         *)
(* Traces[tid].ev is the log of one scenario: one line per public call of  *)
(* the data holder ([op, run, ing, ug, span, sel, outseq, pv, post]), post *)
(* being the table contents read back after the call.  One TLC state per   *)
(* consumed line; at every state the clauses of the properties that speak  *)
(* about that line are evaluated (operators of StoreProps.tla) and every   *)
(* violated clause is reported as <<"BAD", tid, clause, line>>.            *)
(* Traces[tid].twin, if present, is the log of the same scenario without   *)
(* the spans of the traces that the run did not output (C11 frame).        *)
(***************************************************************************)
EXTENDS Naturals, Sequences, FiniteSets, TLC, StoreData, StoreProps

VARIABLES tid, l
vars == <<tid, l>>
Tr == Traces[tid].ev
Tw == Traces[tid].twin
Buf == Traces[tid].buf

Init == tid \in 1..Len(Traces) /\ l = 1
Next == l <= Len(Tr) /\ l' = l + 1 /\ UNCHANGED tid
Spec == Init /\ [][Next]_vars

Empty == [nodes |-> {}, assoc |-> {}, hashes |-> {}, npend |-> 0, status |-> "ok"]
Prev(i) == IF i > 1 THEN Tr[i - 1].post ELSE Empty
OpenIdx(i) == CHOOSE k \in 1..i : Tr[k].op = "open" /\ Tr[k].run = Tr[i].run
Fed(i) == LET idx == SelectSeq([k \in 1..i |-> k], LAMBDA k : Tr[k].op = "save" /\ Tr[k].run = Tr[i].run)
          IN [k \in DOMAIN idx |-> Tr[idx[k]].span]
SetMin(S) == CHOOSE x \in S : \A y \in S : x <= y
SetMax(S) == CHOOSE x \in S : \A y \in S : x >= y
\* the in-memory extremes of the process that executes line i (only the spans it was fed itself)
MinEff(i) == IF Fed(i) = <<>> THEN 0 ELSE SetMin({Fed(i)[k].s : k \in DOMAIN Fed(i)})
MaxEff(i) == IF Fed(i) = <<>> THEN BigTs ELSE SetMax({Fed(i)[k].e : k \in DOMAIN Fed(i)})
Lo(i) == MinEff(i) + Buf
Hi(i) == MaxEff(i) - Buf
Ok(i) == Tr[i].post.status = "ok"
WinOk(i) == MinEff(i) + Buf + Buf < MaxEff(i)
SelOfRun(i) == IF \E k \in 1..i : Tr[k].op \in {"ug", "filter"} /\ Tr[k].run = Tr[i].run
                 THEN Tr[CHOOSE k \in 1..i : Tr[k].op \in {"ug", "filter"} /\ Tr[k].run = Tr[i].run].sel
                 ELSE NoSel

(* ---------------- clauses ---------------- *)
\* C10: no call of the ingestion dies; one record per span id at all times; after the context exit the store is
\* exactly what was there plus the first occurrences of the stream, each with its parent link
C10crash(i) == Tr[i].op \in {"save", "exit"} => Tr[i].post.status # "crashed"
C10unique(i) == UniqueEidP(Tr[i].post.nodes)
C10exact(i) == (Tr[i].op = "exit" /\ Ok(i)) =>
                  LET o == Tr[OpenIdx(i)].post
                  IN IngestExactP(Tr[i].post.nodes, Tr[i].post.assoc, o.nodes, o.assoc, FirstOfStream(o.nodes, Fed(i)))
\* C11: the three cleaning steps do exactly what the statement says
C11incons(i) == (Tr[i].op = "clean1" /\ Ok(i)) => CleanInconsistentP(Prev(i).nodes, Tr[i].post.nodes)
C11window(i) == (Tr[i].op = "clean2" /\ Ok(i)) => CleanWindowP(Prev(i).nodes, Tr[i].post.nodes, Lo(i), Hi(i))
C11names(i) == (Tr[i].op = "clean3" /\ Ok(i)) => CleanNamesP(Prev(i).nodes, Tr[i].post.nodes)
\* nothing but the three cleaning steps and the ingestion changes the table of spans
C11frame(i) == (Tr[i].op \in {"open", "ug", "filter", "stream", "end"}) => Tr[i].post.nodes = Prev(i).nodes
\* whatever steps the pipeline ran, what it streams from is a fixpoint of the three cleaning rules: no trace with a
\* dangling parent, no trace outside the window, every span under its root's workflow name
C11after(i) == (Tr[i].op = "stream" /\ Ok(i)) =>
                  LET N == Tr[i].post.nodes IN
                  /\ CleanInconsistentP(N, N) /\ CleanNamesP(N, N)
                  /\ (WinOk(i) => CleanWindowP(N, N, Lo(i), Hi(i)))
\* C11 frame through the pipeline: PV sequences of the traces output by this scenario and by its twin (the same
\* scenario without the traces that were removed) are identical
PvOf(tr) == LET k == CHOOSE k \in DOMAIN tr : tr[k].op = "stream" /\ \A m \in DOMAIN tr : tr[m].op = "stream" => m <= k
            IN tr[k].pv
HasStream(tr) == \E k \in DOMAIN tr : tr[k].op = "stream"
JobsOfPv(P) == {CHOOSE j \in {e.job : e \in p.evs} : TRUE : p \in {p \in P : p.evs # {}}}
C11twin(i) == (i = Len(Tr) /\ Tw # <<>> /\ HasStream(Tr) /\ HasStream(Tw)) =>
                 LET A == PvOf(Tr)
                     Bp == PvOf(Tw)
                     both == JobsOfPv(A) \cap JobsOfPv(Bp)
                 IN {p \in A : \E e \in p.evs : e.job \in both} = {p \in Bp : \E e \in p.evs : e.job \in both}
\* C09
C09exact(i) == (Tr[i].op = "ug" /\ Ok(i)) => UniqueExactP(Tr[i].sel, Tr[i].post.nodes, Lo(i), Hi(i))
\* C12
C12once(i) == (Tr[i].op = "stream" /\ Ok(i)) => StreamOnceP(Tr[i].outseq)
C12exact(i) == (Tr[i].op = "stream" /\ Ok(i)) =>
                  StreamExactP(OutSet(Tr[i].outseq), Tr[i].post.nodes, Tr[i].post.assoc, SelOfRun(i))
\* every streamed trace reaches the PV output whole: one PV event per span, under the name it was streamed under
C12pv(i) == (Tr[i].op = "stream" /\ Ok(i)) =>
               \A o \in OutSet(Tr[i].outseq) :
                  \E p \in Tr[i].pv : /\ p.name = o.name
                                      /\ {e.eid : e \in p.evs} = {s.eid : s \in o.spans}
                                      /\ \A e \in p.evs : e.job = o.job /\ e.jname = o.name
\* the stream (and the sequencing of what it yields) does not die: a run that got through cleaning and selection ends normally
\* (direct use of the holder: the stream follows the ingestion context - "exit" - or an earlier stream of the same object)
C12completes(i) == (Tr[i].op = "end" /\ i > 1 /\ Tr[i - 1].op \in {"clean3", "ug", "filter", "exit", "stream", "reenter"}
                    /\ Tr[i - 1].post.status = "ok") =>
                      Tr[i].post.status = "ok"
\* C15: every run completes; any two runs give the same PV sequence for every trace both of them output; all
\* unique-graph runs on the ingested store select the same shape classes
C15completes(i) == (Tr[i].op = "end") => (Tr[i].post.status = "ok" \/ (Tr[i].post.status = "raised" /\ ~WinOk(i)))
C15same(i) == (Tr[i].op = "stream" /\ Ok(i)) =>
                 \A k \in 1..(i - 1) : (Tr[k].op = "stream" /\ Tr[k].post.status = "ok") =>
                    LET both == JobsOfPv(Tr[k].pv) \cap JobsOfPv(Tr[i].pv)
                    IN {p \in Tr[k].pv : \E e \in p.evs : e.job \in both} = {p \in Tr[i].pv : \E e \in p.evs : e.job \in both}
\* a run without the unique-graph filter outputs every stored trace
C15all(i) == (Tr[i].op = "stream" /\ Ok(i) /\ SelOfRun(i) = NoSel) =>
                JobsOfPv(Tr[i].pv) = {n.job : n \in Tr[i].post.nodes}
IngestedBefore(i) == \E k \in 1..i : Tr[k].op = "exit" /\ Tr[k].post.status = "ok"
\* the files are the same in every ingesting run of a history, so all runs without the unique-graph filter (on the
\* ingested store) output the same set of traces: nothing an earlier run did makes a later one drop or add a trace
C15sameset(i) == (Tr[i].op = "stream" /\ Ok(i) /\ SelOfRun(i) = NoSel /\ IngestedBefore(i)) =>
                    \A k \in 1..(i - 1) : (Tr[k].op = "stream" /\ Tr[k].post.status = "ok" /\ SelOfRun(k) = NoSel
                                           /\ IngestedBefore(k)) => JobsOfPv(Tr[k].pv) = JobsOfPv(Tr[i].pv)
C15classes(i) == (Tr[i].op = "ug" /\ Ok(i) /\ IngestedBefore(i)) =>
                    \A k \in 1..(i - 1) : (Tr[k].op = "ug" /\ Tr[k].post.status = "ok" /\ IngestedBefore(k)) =>
                       ClassesOf(Tr[k].sel, Tr[k].post.nodes) = ClassesOf(Tr[i].sel, Tr[i].post.nodes)

Clause(c, i) == CASE c = "C10crash" -> C10crash(i) [] c = "C10unique" -> C10unique(i) [] c = "C10exact" -> C10exact(i)
                  [] c = "C11incons" -> C11incons(i) [] c = "C11window" -> C11window(i) [] c = "C11names" -> C11names(i)
                  [] c = "C11frame" -> C11frame(i) [] c = "C11twin" -> C11twin(i) [] c = "C11after" -> C11after(i)
                  [] c = "C09exact" -> C09exact(i)
                  [] c = "C12once" -> C12once(i) [] c = "C12exact" -> C12exact(i) [] c = "C12pv" -> C12pv(i)
                  [] c = "C12completes" -> C12completes(i)
                  [] c = "C15completes" -> C15completes(i) [] c = "C15same" -> C15same(i)
                  [] c = "C15classes" -> C15classes(i) [] c = "C15all" -> C15all(i) [] c = "C15sameset" -> C15sameset(i)
Clauses == {"C10crash", "C10unique", "C10exact", "C11incons", "C11window", "C11names", "C11frame", "C11twin", "C11after", "C09exact",
            "C12once", "C12exact", "C12pv", "C12completes", "C15completes", "C15same", "C15classes", "C15all", "C15sameset"}

(* ---------------- reporting (always TRUE) ---------------- *)
Report == /\ (l > 1) => \A c \in Clauses : Clause(c, l - 1) \/ PrintT(<<"BAD", tid, c, l - 1>>)
          /\ (l = Len(Tr) + 1) => PrintT(<<"END", tid>>)
=============================================================================
