---- MODULE PipeData ----
(* Stub of the generated data module (the harness overwrites it per run). *)
EXTENDS Naturals, Sequences, TLC
Runs == <<>>
====
