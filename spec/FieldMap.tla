------------------------------ MODULE FieldMap ------------------------------
(***************************************************************************)
(* The documented meaning (docs/user/json_data_converter_HOWTO.md) of a    *)
(* field mapping applied to a JSON document, written as a reference        *)
(* interpreter that is independent of jq.                                  *)
(*                                                                         *)
(* JSON values are tagged records:                                         *)
(*   [t |-> "obj", v |-> function from key strings to values]              *)
(*   [t |-> "arr", v |-> sequence of values]                               *)
(*   [t |-> "str", v |-> string]   [t |-> "num", v |-> decimal text]       *)
(*   [t |-> "null"]                                                        *)
(* A mapping is a record                                                   *)
(*   [levels |-> sequence of key paths: levels[k] leads from an element of *)
(*               level k-1 (the document for k = 1) to the array of level k*)
(*    fields |-> function field name -> sequence of concatenation          *)
(*               positions, each a sequence (priority order) of candidates *)
(*               [lv   |-> level whose element the candidate reads (0 =    *)
(*                         the document),                                  *)
(*                path |-> key path to the value, or to the attribute      *)
(*                         array of a key/value lookup,                    *)
(*                kf, kv |-> key field and key value of a lookup ("" for   *)
(*                         a plain path), vp |-> value path of a lookup]]  *)
(* Meaning: every element of the innermost level gives one record; values  *)
(* of outer levels are repeated; an empty array gives no record; an absent *)
(* array gives one record whose dependent values are null; a lookup takes  *)
(* the value path of the array element whose key field equals the key      *)
(* value; a priority list takes its first non-null candidate; a            *)
(* concatenation joins its positions with "_" and is null if a position is *)
(* null.  A record forms a span only if all mandatory fields are present   *)
(* and both timestamps are decimal numbers; other records are skipped.     *)
(***************************************************************************)
EXTENDS Naturals, Sequences, FiniteSets, TLC, FieldData
\* FieldData (generated) defines Cases: sequence of [docs |-> sequence of documents, map |-> mapping,
\*                                                    obs |-> sequence of observed span records or <<>>]

VARIABLE i
vars == <<i>>

Null == [t |-> "null"]
IsObj(x) == x.t = "obj"
IsArr(x) == x.t = "arr"
IsNull(x) == x.t = "null"

\* follow a key path through nested objects; anything missing is null
RECURSIVE Get(_, _)
Get(x, path) == IF path = <<>> THEN x
                ELSE IF IsObj(x) /\ Head(path) \in DOMAIN x.v THEN Get(x.v[Head(path)], Tail(path))
                ELSE Null

\* environments: one element per level (Null where the array is absent), in document order
RECURSIVE Envs(_, _, _)
Envs(m, k, env) == \* env: elements of levels 1..k-1 chosen so far
    IF k > Len(m.levels) THEN <<env>>
    ELSE LET parent == IF k = 1 THEN env[1] ELSE env[k]      \* env[1] is the document, env[j+1] the element of level j
             arr == Get(parent, m.levels[k])
         IN IF IsArr(arr)
              THEN LET RECURSIVE Cat(_)
                       Cat(j) == IF j > Len(arr.v) THEN <<>> ELSE Envs(m, k + 1, Append(env, arr.v[j])) \o Cat(j + 1)
                   IN Cat(1)
              ELSE Envs(m, k + 1, Append(env, Null))

Text(x) == IF x.t \in {"str", "num"} THEN x.v ELSE "?"     \* generated mappings end on scalars
Scalar(x) == x.t \in {"str", "num"}

Candidate(c, env) ==
    LET base == env[c.lv + 1]
        tgt == Get(base, c.path)
    IN IF c.kv = "" THEN tgt
       ELSE IF ~IsArr(tgt) THEN Null
       ELSE LET hits == SelectSeq(tgt.v, LAMBDA el : Get(el, <<c.kf>>) = [t |-> "str", v |-> c.kv])
            IN IF hits = <<>> THEN Null ELSE Get(hits[Len(hits)], c.vp)     \* a repeated key: the last one wins

RECURSIVE FirstNonNull(_, _)
FirstNonNull(cs, env) == IF cs = <<>> THEN Null
                         ELSE LET v == Candidate(Head(cs), env) IN IF IsNull(v) THEN FirstNonNull(Tail(cs), env) ELSE v

RECURSIVE JoinAll(_)
JoinAll(vs) == IF Len(vs) = 1 THEN Text(vs[1]) ELSE Text(vs[1]) \o "_" \o JoinAll(Tail(vs))
FieldValue(positions, env) ==
    LET vs == [p \in DOMAIN positions |-> FirstNonNull(positions[p], env)]
    IN IF \E p \in DOMAIN vs : IsNull(vs[p]) THEN Null ELSE [t |-> "str", v |-> JoinAll(vs)]

Record(m, env) == [f \in DOMAIN m.fields |-> FieldValue(m.fields[f], env)]
RecordsOfDoc(m, doc) == LET es == Envs(m, 1, <<doc>>) IN [k \in DOMAIN es |-> Record(m, es[k])]

Digits == {"0", "1", "2", "3", "4", "5", "6", "7", "8", "9"}
IsNumberText(s) == s \in NumTexts      \* NumTexts (FieldData): the texts of the case set that denote decimal integers
Mandatory == {"job_name", "job_id", "event_type", "event_id", "application_name"}
Valid(r) == /\ \A f \in Mandatory : ~IsNull(r[f])
            /\ ~IsNull(r["start_timestamp"]) /\ IsNumberText(r["start_timestamp"].v)
            /\ ~IsNull(r["end_timestamp"]) /\ IsNumberText(r["end_timestamp"].v)
\* the span a valid record forms: texts of the fields, "" standing for a null parent
SpanOf(r) == [f \in DOMAIN r |-> IF IsNull(r[f]) THEN "<null>" ELSE r[f].v]

RECURSIVE AllRecords(_, _)
AllRecords(m, docs) == IF docs = <<>> THEN <<>> ELSE RecordsOfDoc(m, Head(docs)) \o AllRecords(m, Tail(docs))
Expected(c) == LET rs == AllRecords(c.map, c.docs)
                   ok == SelectSeq(rs, Valid)
               IN [k \in DOMAIN ok |-> SpanOf(ok[k])]

\* bags of records (the order in which spans are yielded is not part of the property)
BagEq(a, b) == /\ Len(a) = Len(b)
               /\ \A x \in {a[k] : k \in DOMAIN a} \cup {b[k] : k \in DOMAIN b} :
                     Cardinality({k \in DOMAIN a : a[k] = x}) = Cardinality({k \in DOMAIN b : b[k] = x})

Init == i \in 1..Len(Cases)
Next == FALSE /\ UNCHANGED vars
Spec == Init /\ [][Next]_vars
Report == LET c == Cases[i]
              e == Expected(c)
          IN PrintT(<<"V", i, BagEq(e, c.obs), Len(e), Len(AllRecords(c.map, c.docs)), IF BagEq(e, c.obs) THEN <<>> ELSE e>>)
=============================================================================
