---- MODULE LoopData ----
(* Stub of the generated data module (the harness overwrites it per run). *)
EXTENDS Naturals, Sequences
Obs == << [input |-> [types |-> {"S", "A"}, edges |-> {<<"S", "A">>}],
           nest |-> [nodes |-> {[id |-> "1", ty |-> "S", kind |-> "event"], [id |-> "2", ty |-> "A", kind |-> "event"]},
                     edges |-> {<<"1", "2">>}, subs |-> {}]] >>
====
