------------------------------- MODULE Store -------------------------------
(***************************************************************************)
(* Implementation-shaped model of the otel2pv half's persistent state:     *)
(* the SQL data holder (tables nodes / NODE_ASSOCIATION / job_hashes), the *)
(* pending batch, the commit / integrity-error / filter / retry protocol,  *)
(* the three cleaning transactions, the paged shape hashing and selection  *)
(* of unique graphs, the grouped stream, and separate-process runs over    *)
(* one database file.                                                      *)
(*                                                                         *)
(* One action per critical section of the code (sql_dataholder.py,         *)
(* base.py, otel_to_pv.py).  Deviations the code has are modelled, not     *)
(* idealised: node commit and association commit are two transactions; an  *)
(* association failure at the first level dies (the filter touches ORM     *)
(* objects expired by the node commit), at the retry level the integrity   *)
(* error propagates; min/max timestamps live in the ingesting process      *)
(* only; dangling parents are found through the association table.         *)
(*                                                                         *)
(* Two modes, chosen by the generated data module StoreData:               *)
(*   exhaustive (Traces = <<>>): every stream over Spans up to MaxLen per  *)
(*     ingesting run, every batch size in Batches, every buffer in Buffers,*)
(*     every history of at most MaxRuns runs with flags from RunFlags;     *)
(*   trace (Traces # <<>>): one initial state per recorded execution of    *)
(*     the real code; every public call is one logged line; the internal   *)
(*     flush steps between two lines are inferred; the model must arrive   *)
(*     at the logged table contents after every line.                      *)
(***************************************************************************)
EXTENDS Naturals, Sequences, FiniteSets, TLC, StoreData, StoreProps
\* StoreData (generated) defines
\*   Spans    set of candidate span records [eid, par, job, name, ty, s, e]   (exhaustive mode)
\*   MaxLen, Batches, Buffers, MaxRuns, RunFlags  (exhaustive mode)
\*   SameFiles TRUE iff every ingesting run after the first feeds the same stream again (C15: "the same files")
\*   Crashes  TRUE iff the process may be killed between the internal steps of a flush (crash-point exploration)
\*   CleanOn  TRUE iff runs perform the cleaning steps (FALSE: ingestion only, C10 single-run config)
\*   Traces   sequence of [B, buf, ev: sequence of logged lines]  (trace mode)
\* StoreProps defines NoPar, BigTs and the property operators (pure functions of tables).

VARIABLES nodes,    \* table nodes: set of span records, at most one per eid
          assoc,    \* table NODE_ASSOCIATION: set of <<parent eid, child eid>>
          hashes,   \* table job_hashes: set of [job, name, h]
          pendN,    \* pending node batch (sequence of span records)
          pendR,    \* pending association batch (sequence of <<parent, child>>)
          minTs, maxTs,   \* in-memory extreme timestamps of this process (defaults BigTs / 0)
          pc,       \* control state
          B, buf,   \* batch size, time buffer of the configuration
          run,      \* number of the current run (process)
          flags,    \* [ing, ug] of the current run
          fed,      \* number of spans fed in this run (exhaustive mode bound)
          first,    \* history: store at Open plus the first occurrence of every new span id fed since
          pre,      \* history: [nodes, assoc] at Open
          todo,     \* root eids not yet hashed (temporary root table minus pages done)
          sel,      \* result of unique-graph selection: set of <<name, job>>, or NoSel
          out,      \* what the run streamed: set of [name, job, spans]
          ans,      \* history: job |-> span set streamed by earlier runs; classes selected by earlier ug runs; the set
                    \* of traces output by the latest run without the unique-graph filter
          files,    \* history: the stream fed by the first ingesting run ("the same files" of C15)
          ingested, \* history: some earlier run has finished an ingestion
          tid, l    \* trace mode: trace index, next line
vars == <<nodes, assoc, hashes, pendN, pendR, minTs, maxTs, pc, B, buf, run, flags, fed, first, pre, todo, sel, out,
          ans, files, ingested, tid, l>>

TraceMode == Traces # <<>>
Tr == Traces[tid].ev

Range(s) == {s[i] : i \in DOMAIN s}
Distinct(s) == \A i, j \in DOMAIN s : i # j => s[i] # s[j]

MinEff == IF minTs > maxTs THEN 0 ELSE minTs          \* DataHolder.min_timestamp
MaxEff == IF maxTs < minTs THEN BigTs ELSE maxTs      \* DataHolder.max_timestamp
WinLo == MinEff + buf
WinHi == MaxEff - buf          \* Naturals: 0 when buf > MaxEff, which is then caught by WinRaises
WinRaises == MinEff + buf + buf >= MaxEff

Init == /\ nodes = {} /\ assoc = {} /\ hashes = {} /\ pendN = <<>> /\ pendR = <<>>
        /\ minTs = BigTs /\ maxTs = 0
        /\ pc = "off" /\ run = 0 /\ flags = [ing |-> FALSE, ug |-> FALSE] /\ fed = 0
        /\ first = {} /\ pre = [nodes |-> {}, assoc |-> {}]
        /\ todo = {} /\ sel = NoSel /\ out = {} /\ files = <<>> /\ ingested = FALSE
        /\ ans = [jobs |-> <<>>, classes |-> {}, has |-> FALSE, full |-> {}, fhas |-> FALSE]
        /\ IF TraceMode THEN /\ tid \in 1..Len(Traces) /\ l = 1
                             /\ B = Traces[tid].B /\ buf = Traces[tid].buf
                        ELSE /\ tid = 0 /\ l = 0
                             /\ B \in Batches /\ buf \in Buffers

(* ---------------- process start ---------------- *)
Open(f) == /\ pc = "off"
           /\ run' = run + 1 /\ flags' = f /\ fed' = 0
           /\ minTs' = BigTs /\ maxTs' = 0 /\ pendN' = <<>> /\ pendR' = <<>>
           /\ first' = nodes /\ pre' = [nodes |-> nodes, assoc |-> assoc]
           /\ todo' = {} /\ sel' = NoSel /\ out' = {}
           /\ pc' = IF f.ing THEN "idle" ELSE "closed"
           /\ UNCHANGED <<nodes, assoc, hashes, B, buf, ans, files, ingested, tid>>

(* ---------------- ingestion ---------------- *)
SaveData(s) == /\ pc = "idle"
               /\ minTs' = IF s.s < minTs THEN s.s ELSE minTs
               /\ maxTs' = IF s.e > maxTs THEN s.e ELSE maxTs
               /\ pendN' = Append(pendN, s)
               /\ pendR' = IF s.par # NoPar THEN Append(pendR, <<s.par, s.eid>>) ELSE pendR
               /\ fed' = fed + 1
               /\ first' = IF s.eid \in Eids(first) THEN first ELSE first \cup {s}
               /\ pc' = IF Len(pendN') >= B THEN "flushN" ELSE "idle"
               /\ IF ingested THEN (SameFiles => (fed < Len(files) /\ s = files[fed + 1])) /\ files' = files
                              ELSE files' = Append(files, s)
               /\ UNCHANGED <<nodes, assoc, hashes, B, buf, run, flags, pre, todo, sel, out, ans, ingested, tid>>

Exit == /\ pc = "idle"
        /\ (ingested /\ SameFiles) => fed = Len(files)
        /\ pc' = "exitN" /\ ingested' = TRUE
        /\ UNCHANGED <<nodes, assoc, hashes, pendN, pendR, minTs, maxTs, B, buf, run, flags, fed, first, pre, todo, sel,
                       out, ans, files, tid>>

Closing == pc \in {"exitN", "exitA", "exitF", "exitRN", "exitRA"}
After == IF Closing THEN "closed" ELSE "idle"
NodesInsertable == /\ Distinct([i \in DOMAIN pendN |-> pendN[i].eid])
                   /\ Eids(Range(pendN)) \cap Eids(nodes) = {}
AssocInsertable == Distinct(pendR) /\ Range(pendR) \cap assoc = {}

\* batch_insert_node_models: one transaction
InsertNodes == /\ pc \in {"flushN", "exitN", "retryN", "exitRN"}
               /\ IF NodesInsertable
                    THEN /\ nodes' = nodes \cup Range(pendN)
                         /\ pc' = CASE pc = "flushN" -> "flushA" [] pc = "exitN" -> "exitA"
                                    [] pc = "retryN" -> "retryA" [] pc = "exitRN" -> "exitRA"
                    ELSE /\ nodes' = nodes
                         /\ pc' = CASE pc = "flushN" -> "filter" [] pc = "exitN" -> "exitF"
                                    [] OTHER -> "crashed"
               /\ UNCHANGED <<assoc, hashes, pendN, pendR, minTs, maxTs, B, buf, run, flags, fed, first, pre, todo, sel,
                              out, ans, files, ingested, tid>>

\* batch_insert_node_associations: a second transaction; the nodes stay committed if it fails
InsertAssoc == /\ pc \in {"flushA", "exitA", "retryA", "exitRA"}
               /\ IF AssocInsertable
                    THEN /\ assoc' = assoc \cup Range(pendR)
                         /\ pendN' = <<>> /\ pendR' = <<>> /\ pc' = After
                    ELSE /\ assoc' = assoc /\ UNCHANGED <<pendN, pendR>>
                         /\ pc' = "crashed"
               /\ UNCHANGED <<nodes, hashes, minTs, maxTs, B, buf, run, flags, fed, first, pre, todo, sel, out, ans, files, ingested, tid>>

\* check_and_filter_non_unique_nodes_and_associations (up to its commit)
FirstOcc(s) == SelectSeq([i \in DOMAIN s |-> [n |-> s[i], fst |-> \A j \in 1..(i - 1) : s[j].eid # s[i].eid]],
                         LAMBDA r : r.fst)
Filter == /\ pc \in {"filter", "exitF"}
          /\ LET f1 == FirstOcc(pendN)
                 f2 == SelectSeq(f1, LAMBDA r : r.n.eid \notin Eids(nodes))
                 ns == [i \in DOMAIN f2 |-> f2[i].n]
                 wp == SelectSeq(ns, LAMBDA n : n.par # NoPar)
             IN /\ pendN' = ns
                /\ pendR' = [i \in DOMAIN wp |-> <<wp[i].par, wp[i].eid>>]
          /\ pc' = IF pc = "filter" THEN "retryN" ELSE "exitRN"
          /\ UNCHANGED <<nodes, assoc, hashes, minTs, maxTs, B, buf, run, flags, fed, first, pre, todo, sel, out, ans, files, ingested, tid>>

(* ---------------- cleaning (otel_to_pv: fixed order) ---------------- *)
\* remove_inconsistent_jobs: dangling parents are found through the association table
RemoveInconsistent ==
    /\ pc = "closed"
    /\ LET dangling == {r[1] : r \in {r \in assoc : r[1] \notin Eids(nodes)}}
           badJobs == {n.job : n \in {n \in nodes : \E r \in assoc : r[2] = n.eid /\ r[1] \in dangling}}
           keep == {n \in nodes : n.job \notin badJobs}
       IN /\ nodes' = keep
          /\ assoc' = {r \in assoc : r[2] \in Eids(keep)}
    /\ pc' = "clean2"
    /\ UNCHANGED <<hashes, pendN, pendR, minTs, maxTs, B, buf, run, flags, fed, first, pre, todo, sel, out, ans, files, ingested, tid>>

\* remove_jobs_outside_of_time_window
RemoveOutsideWindow ==
    /\ pc = "clean2"
    /\ IF WinRaises
         THEN pc' = "raised" /\ UNCHANGED <<nodes, assoc>>
         ELSE LET inJobs == {n.job : n \in {n \in nodes : InWin(n, WinLo, WinHi)}}
                  keep == {n \in nodes : n.job \in inJobs}
              IN /\ nodes' = keep
                 /\ assoc' = {r \in assoc : r[2] \in Eids(keep)}
                 /\ pc' = "clean3"
    /\ UNCHANGED <<hashes, pendN, pendR, minTs, maxTs, B, buf, run, flags, fed, first, pre, todo, sel, out, ans, files, ingested, tid>>

\* update_job_names_by_root_span (jobs without a root keep their names; one root per job assumed by the inputs)
UpdateJobNames ==
    /\ pc = "clean3"
    /\ nodes' = {IF \E r \in nodes : r.job = n.job /\ r.par = NoPar
                   THEN [n EXCEPT !.name = (CHOOSE r \in nodes : r.job = n.job /\ r.par = NoPar).name]
                   ELSE n : n \in nodes}
    /\ pc' = IF flags.ug THEN "ug" ELSE "stream"
    /\ UNCHANGED <<assoc, hashes, pendN, pendR, minTs, maxTs, B, buf, run, flags, fed, first, pre, todo, sel, out, ans, files, ingested, tid>>

SkipCleaning == /\ ~CleanOn /\ pc = "closed" /\ pc' = "done"
                /\ UNCHANGED <<nodes, assoc, hashes, pendN, pendR, minTs, maxTs, B, buf, run, flags, fed, first, pre,
                               todo, sel, out, ans, files, ingested, tid>>

(* ---------------- unique graphs ---------------- *)
\* time window, job_hashes emptied, temporary table of the roots of jobs inside the window
UgStart == /\ pc = "ug"
           /\ IF WinRaises
                THEN pc' = "raised" /\ UNCHANGED <<hashes, todo>>
                ELSE /\ hashes' = {}
                     /\ todo' = {n.eid : n \in {n \in nodes : n.par = NoPar /\ n.job \in JobsInWin(nodes, WinLo, WinHi)}}
                     /\ pc' = "ugpage"
           /\ UNCHANGED <<nodes, assoc, pendN, pendR, minTs, maxTs, B, buf, run, flags, fed, first, pre, sel, out, ans, files, ingested, tid>>

\* one page of at most B roots: hash each, insert the rows (job id is unique in job_hashes)
HashPage == /\ pc = "ugpage" /\ todo # {}
            /\ \E page \in SUBSET todo :
                  /\ Cardinality(page) = (IF Cardinality(todo) < B THEN Cardinality(todo) ELSE B)
                  /\ LET roots == {n \in nodes : n.eid \in page}
                         rows == {[job |-> r.job, name |-> r.name, h |-> Shape(r, nodes)] : r \in roots}
                     IN IF /\ \A a, b \in roots : a.job = b.job => a = b
                           /\ {r.job : r \in roots} \cap {x.job : x \in hashes} = {}
                          THEN hashes' = hashes \cup rows /\ todo' = todo \ page /\ pc' = "ugpage"
                          ELSE hashes' = hashes /\ todo' = todo /\ pc' = "crashed"
            /\ UNCHANGED <<nodes, assoc, pendN, pendR, minTs, maxTs, B, buf, run, flags, fed, first, pre, sel, out, ans, files, ingested, tid>>

\* GROUP BY (name, hash): one arbitrary job id per group
Groups == {<<x.name, x.h>> : x \in hashes}
SelectUnique == /\ pc = "ugpage" /\ todo = {}
                /\ \E f \in [Groups -> {x.job : x \in hashes}] :
                      /\ \A g \in Groups : \E x \in hashes : x.job = f[g] /\ x.name = g[1] /\ x.h = g[2]
                      /\ sel' = {<<g[1], f[g]>> : g \in Groups}
                /\ pc' = "stream"
                /\ UNCHANGED <<nodes, assoc, hashes, pendN, pendR, minTs, maxTs, B, buf, run, flags, fed, first, pre,
                               todo, out, ans, files, ingested, tid>>

\* instead of the unique-graph selection the caller supplies an arbitrary name -> trace-id filter (stream_data's
\* documented parameter); only used in trace mode
\* (direct use of the holder: also right after the ingestion context - the filter_job_names parameter of stream_data is
\* logged as the pair filter it amounts to)
SupplyFilter(f) == /\ pc \in {"ug", "closed"}
                   /\ sel' = f /\ pc' = "stream"
                   /\ UNCHANGED <<nodes, assoc, hashes, pendN, pendR, minTs, maxTs, B, buf, run, flags, fed, first, pre, todo,
                                  out, ans, files, ingested, tid>>

(* ---------------- streaming ---------------- *)
\* rows filtered by (name, job) pairs, ordered by (name, job), grouped by name then by job
Streamed == LET rows == FilterRows(nodes, sel)
            IN {[name |-> k[1], job |-> k[2],
                 spans |-> {[eid |-> n.eid, ch |-> {r[2] : r \in {r \in assoc : r[1] = n.eid /\ r[2] \in Eids(nodes)}}]
                            : n \in {n \in rows : n.name = k[1] /\ n.job = k[2]}}]
                : k \in {<<n.name, n.job>> : n \in rows}}
StreamFrom(P) ==
          /\ pc \in P
          /\ out' = Streamed
          /\ pc' = "done"
          /\ ans' = [jobs |-> [j \in DOMAIN ans.jobs \cup {o.job : o \in Streamed} |->
                                  IF j \in {o.job : o \in Streamed}
                                    THEN {o.spans : o \in {o \in Streamed : o.job = j}}
                                    ELSE ans.jobs[j]],
                     classes |-> IF flags.ug /\ ingested THEN {<<x.name, x.h>> : x \in {x \in hashes : <<x.name, x.job>> \in sel}}
                                 ELSE ans.classes,
                     has |-> (ans.has \/ (flags.ug /\ ingested)),
                     full |-> IF ~flags.ug /\ ingested THEN {o.job : o \in Streamed} ELSE ans.full,
                     fhas |-> (ans.fhas \/ (~flags.ug /\ ingested))]
          /\ UNCHANGED <<nodes, assoc, hashes, pendN, pendR, minTs, maxTs, B, buf, run, flags, fed, first, pre, todo, sel,
                         files, ingested, tid>>
Stream == StreamFrom({"stream"})
\* direct use of the data holder's public interface without the pipeline (trace mode only): stream_data() right after
\* the ingestion context, no cleaning, no selection ...
StreamDirect == TraceMode /\ StreamFrom({"closed"})
\* ... and the same holder object entering its ingestion context again after a stream ("with data_holder:" a second
\* time): the in-memory extremes and the tables stay, more spans follow
Reenter == /\ TraceMode /\ pc = "done" /\ pc' = "idle"
           /\ UNCHANGED <<nodes, assoc, hashes, pendN, pendR, minTs, maxTs, B, buf, run, flags, fed, first, pre, todo, sel,
                          out, ans, files, ingested, tid>>

\* the process ends: after the stream, after an error, or right after the ingestion context (ingestion-only use)
EndRun == /\ (pc \in {"done", "raised", "crashed"} \/ (pc = "closed" /\ TraceMode))
          /\ pc' = "off"
          /\ UNCHANGED <<nodes, assoc, hashes, pendN, pendR, minTs, maxTs, B, buf, run, flags, fed, first, pre, todo, sel,
                         out, ans, files, ingested, tid>>

\* crash point: the process is killed inside the flush protocol; what has been committed stays, the rest is lost
\* (only explored when StoreData.Crashes is TRUE: no listed property quantifies over crash points)
Kill == /\ Crashes
        /\ pc \in {"flushN", "flushA", "filter", "retryN", "retryA", "exitN", "exitA", "exitF", "exitRN", "exitRA"}
        /\ pc' = "off" /\ pendN' = <<>> /\ pendR' = <<>> /\ ingested' = TRUE
        /\ UNCHANGED <<nodes, assoc, hashes, minTs, maxTs, B, buf, run, flags, fed, first, pre, todo, sel, out, ans, files, tid>>

Internal == InsertNodes \/ InsertAssoc \/ Filter
Settled == pc \in {"off", "idle", "closed", "clean2", "clean3", "ug", "stream", "done", "raised", "crashed"}

(* ---------------- exhaustive mode ---------------- *)
NextX == /\ UNCHANGED l
         /\ \/ (run < MaxRuns /\ \E f \in RunFlags : Open(f))
            \/ (fed < MaxLen /\ \E s \in Spans : SaveData(s))
            \/ Exit \/ Internal \/ Kill
            \/ (CleanOn /\ (RemoveInconsistent \/ RemoveOutsideWindow \/ UpdateJobNames))
            \/ SkipCleaning
            \/ UgStart \/ HashPage \/ SelectUnique \/ Stream \/ EndRun

(* ---------------- trace mode ---------------- *)
(* A logged line: [op, ...arguments, post |-> [nodes, assoc, hashes, npend, pc]] recorded when the public call       *)
(* returned (or raised).  The line is consumed by the model's action of that call; internal steps follow silently  *)
(* until the model is settled; the next line can be consumed only if the model then agrees with the logged post.   *)
Post(i) == Tr[i].post
\* logged hashes carry the digest string; the model carries the shape: they must induce the same partition
HashAgrees(H) == /\ {<<x.job, x.name>> : x \in hashes} = {<<y.job, y.name>> : y \in H}
                 /\ \A x1, x2 \in hashes : \A y1, y2 \in H :
                       (y1.job = x1.job /\ y2.job = x2.job) => ((x1.h = x2.h) <=> (y1.h = y2.h))
Agrees(i) == /\ nodes = Post(i).nodes /\ assoc = Post(i).assoc /\ HashAgrees(Post(i).hashes)
             /\ Len(pendN) = Post(i).npend
             /\ (Tr[i].op # "end") => /\ (pc = "crashed") = (Post(i).status = "crashed")
                                      /\ (pc = "raised") = (Post(i).status = "raised")
CanConsume == Settled /\ l <= Len(Tr) /\ (l > 1 => Agrees(l - 1))
Consume == l' = l + 1
TraceStep ==
    /\ CanConsume
    /\ Consume
    /\ LET e == Tr[l] IN
         CASE e.op = "open"   -> Open([ing |-> e.ing, ug |-> e.ug])
           [] e.op = "save"   -> SaveData(e.span)
           [] e.op = "exit"   -> Exit
           [] e.op = "clean1" -> RemoveInconsistent
           [] e.op = "clean2" -> RemoveOutsideWindow
           [] e.op = "clean3" -> UpdateJobNames
           [] e.op = "ug"     -> UgStart
           [] e.op = "filter" -> SupplyFilter(e.sel)
           [] e.op = "stream" -> (Stream \/ StreamDirect)
           [] e.op = "reenter" -> Reenter
           [] e.op = "end"    -> EndRun
           [] OTHER -> FALSE
\* "ug" is one public call (find_unique_graphs): its pages and the final selection are internal steps; the
\* representative chosen by the code is taken from the log (any member of the group conforms)
NextT == \/ TraceStep
         \/ (~Settled /\ Internal /\ UNCHANGED l)
         \/ (pc = "ugpage" /\ HashPage /\ UNCHANGED l)
         \/ (pc = "ugpage" /\ SelectUnique /\ sel' = Tr[l - 1].sel /\ UNCHANGED l)

Next == IF TraceMode THEN NextT ELSE NextX
Spec == Init /\ [][Next]_vars

TraceAccepted == TraceMode /\ l = Len(Tr) + 1 /\ Settled /\ (Len(Tr) > 0 => Agrees(Len(Tr)))

(* ---------------- properties (instances of StoreProps on the model's variables) ---------------- *)
TypeOK == /\ \A n \in nodes : n.eid # NoPar
          /\ \A r \in assoc : r[2] # NoPar
          /\ Len(pendR) <= Len(pendN)
          /\ pc \in {"off", "idle", "flushN", "flushA", "filter", "retryN", "retryA", "exitN", "exitA", "exitF", "exitRN",
                     "exitRA", "closed", "clean2", "clean3", "ug", "ugpage", "stream", "done", "raised", "crashed"}
UniqueEid == UniqueEidP(nodes)
NoCrash == pc # "crashed"
\* C10: after the context exit the store is exactly: what was there + first occurrences, each with its link
IngestExact == (pc = "closed" /\ flags.ing) => IngestExactP(nodes, assoc, pre.nodes, pre.assoc, first)
\* the pending batch is empty whenever a run has left the ingestion context
NothingPending == (pc \in {"closed", "clean2", "clean3", "ug", "ugpage", "stream", "done"}) => pendN = <<>> /\ pendR = <<>>
\* every stored span with a parent has its association row (the cleaning steps rely on it)
LinksKept == (pc \notin {"flushA", "exitA", "retryA", "exitRA", "crashed"}) => LinksKeptP(nodes, assoc)
\* the same at rest only (between runs and after an ingestion has completed): what a later run starts from
LinksKeptAtRest == (pc \in {"off", "closed"}) => LinksKeptP(nodes, assoc)
\* a completed ingestion leaves every stored span with its link, whatever happened to earlier runs
HealedByReingest == (pc = "closed" /\ flags.ing) => LinksKeptP(nodes, assoc)
\* C11 as action properties on the three cleaning steps
CleanInconsistentExact == [][(pc = "closed" /\ pc' = "clean2") => CleanInconsistentP(nodes, nodes')]_vars
CleanWindowExact == [][(pc = "clean2" /\ pc' = "clean3") => CleanWindowP(nodes, nodes', WinLo, WinHi)]_vars
CleanNamesExact == [][(pc = "clean3" /\ pc' \in {"ug", "stream"}) => CleanNamesP(nodes, nodes')]_vars
CleanAssocFrame == [][(pc \in {"closed", "clean2", "clean3"} /\ pc' \in {"clean2", "clean3", "ug", "stream"}) =>
                          /\ assoc' \subseteq assoc
                          /\ \A r \in assoc : (r[2] \in Eids(nodes')) => r \in assoc']_vars
\* C09: the selection is a transversal of the shape classes of the stored traces inside the window
UniqueExact == (pc = "stream" /\ flags.ug) => UniqueExactP(sel, nodes, WinLo, WinHi)
\* C12: the stream is a partition of the (filtered) store
StreamExact == (pc = "done" /\ CleanOn) => StreamExactP(out, nodes, assoc, sel)
\* C15: a later run gives the same answer as earlier runs for every trace both of them output, the same shape
\* classes are selected by all ug runs, all runs without the unique-graph filter output the same set of traces (the
\* files are the same), and no run crashes
SameAnswer == [][(pc = "stream" /\ pc' = "done") =>
                   /\ \A j \in DOMAIN ans.jobs : j \in {o.job : o \in out'} => ans'.jobs[j] = ans.jobs[j]
                   /\ (flags.ug /\ ingested /\ ans.has) => ans'.classes = ans.classes
                   /\ (~flags.ug /\ ingested /\ ans.fhas) => {o.job : o \in out'} = ans.full]_vars

(* ---------------- reporting (always TRUE) ---------------- *)
ReportAcc == TraceAccepted => PrintT(<<"ACC", tid>>)
ReportPfx == TraceMode => (CanConsume => PrintT(<<"PFX", tid, l>>))
=============================================================================
