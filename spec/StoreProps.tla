----------------------------- MODULE StoreProps -----------------------------
(***************************************************************************)
(* The listed properties C09-C12 (and the table-level part of C15) as pure *)
(* operators over table contents.  Store.tla instantiates them on the      *)
(* model's variables (design-level checking); StoreObs.tla instantiates    *)
(* them on the table contents logged from executions of the real code.     *)
(*                                                                         *)
(* A span record is [eid, par, job, name, ty, s, e]; par = NoPar for a     *)
(* root span; s, e are start / end times in minutes after a fixed origin.  *)
(***************************************************************************)
EXTENDS Naturals, Sequences, FiniteSets

NoPar == "-"
NoSel == {<<"-", "-">>}   \* "no unique-graph filter"
BigTs == 1000000       \* stands for the largest sqlite integer (the code's default maximum)

Eids(S) == {n.eid : n \in S}
LinksOf(S) == {<<n.par, n.eid>> : n \in {n \in S : n.par # NoPar}}

UniqueEidP(N) == \A a, b \in N : a.eid = b.eid => a = b

(* ---- C10 ---- *)
\* N0, A0: tables before the ingestion; F: N0 plus the first occurrence of every new span id of the stream
IngestExactP(N, A, N0, A0, F) == /\ N = F
                                 /\ A = A0 \cup LinksOf(F \ N0)
LinksKeptP(N, A) == LinksOf(N) \subseteq A

\* first occurrences of a stream (sequence of span records) on top of a store N0
RECURSIVE FirstOfStream(_, _)
FirstOfStream(N0, st) == IF st = <<>> THEN N0
                         ELSE LET F == FirstOfStream(N0, SubSeq(st, 1, Len(st) - 1))
                                  x == st[Len(st)]
                              IN IF x.eid \in Eids(F) THEN F ELSE F \cup {x}

(* ---- C11 ---- *)
Dangling(N) == {n \in N : n.par # NoPar /\ n.par \notin Eids(N)}
CleanInconsistentP(N, N2) == N2 = {n \in N : n.job \notin {d.job : d \in Dangling(N)}}
InWin(n, lo, hi) == (lo <= n.s /\ n.s <= hi) \/ (lo <= n.e /\ n.e <= hi)
JobsInWin(N, lo, hi) == {n.job : n \in {n \in N : InWin(n, lo, hi)}}
CleanWindowP(N, N2, lo, hi) == N2 = {n \in N : n.job \in JobsInWin(N, lo, hi)}
Roots(N) == {n \in N : n.par = NoPar}
HasRoot(j, N) == \E r \in Roots(N) : r.job = j
RootName(j, N) == (CHOOSE r \in Roots(N) : r.job = j).name
CleanNamesP(N, N2) == N2 = {IF HasRoot(n.job, N) THEN [n EXCEPT !.name = RootName(n.job, N)] ELSE n : n \in N}

(* ---- C09 ---- *)
\* shape of the call tree below a span: its type and the bag of its children's shapes
RECURSIVE Shape(_, _)
Shape(r, N) == LET ch == {c \in N : c.par = r.eid}
                   shs == {Shape(c, N) : c \in ch}
               IN [ty |-> r.ty, ch |-> {<<sh, Cardinality({c \in ch : Shape(c, N) = sh})>> : sh \in shs}]
\* sel: set of <<name, job>>.  Exactly one selected trace per (workflow name, shape) class of the stored traces
\* whose job has a span starting or ending inside the window; every selected pair is such a trace under its name.
UniqueExactP(sel, N, lo, hi) ==
    LET cand == {r \in Roots(N) : r.job \in JobsInWin(N, lo, hi)}
        cls(r) == <<r.name, Shape(r, N)>>
    IN /\ \A p \in sel : \E r \in cand : r.job = p[2] /\ r.name = p[1]
       /\ \A r \in cand : Cardinality({p \in sel : \E q \in cand : q.job = p[2] /\ q.name = p[1] /\ cls(q) = cls(r)}) = 1
ClassesOf(sel, N) == {<<r.name, Shape(r, N)>> : r \in {r \in Roots(N) : <<r.name, r.job>> \in sel}}

(* ---- C12 ---- *)
\* out: set of [name, job, spans: set of [eid, ch]]; sel: NoSel or a set of <<name, job>>
FilterRows(N, sel) == IF sel = NoSel \/ sel = {} THEN N ELSE {n \in N : <<n.name, n.job>> \in sel}
StreamExactP(out, N, A, sel) ==
    LET rows == FilterRows(N, sel) IN
    /\ \A a, b \in out : (a.name = b.name /\ a.job = b.job) => a = b
    /\ {<<o.name, o.job>> : o \in out} = {<<n.name, n.job>> : n \in rows}
    /\ \A o \in out : o.spans = {[eid |-> n.eid, ch |-> {c.eid : c \in {c \in N : c.par = n.eid}}]
                                 : n \in {n \in rows : n.name = o.name /\ n.job = o.job}}
\* the sequence form of what was streamed: <<[name, jobs: <<[job, spans: <<[eid, ch]>>]>>]>>
NoRepeat(s) == \A i, j \in DOMAIN s : i # j => s[i] # s[j]
StreamOnceP(oseq) ==
    /\ NoRepeat([i \in DOMAIN oseq |-> oseq[i].name])
    /\ \A i \in DOMAIN oseq : /\ NoRepeat([k \in DOMAIN oseq[i].jobs |-> oseq[i].jobs[k].job])
                              /\ \A k \in DOMAIN oseq[i].jobs :
                                    NoRepeat([m \in DOMAIN oseq[i].jobs[k].spans |-> oseq[i].jobs[k].spans[m].eid])
    \* no span is streamed under two (name, trace) groups (trace ids need only be unique within a workflow name)
    /\ \A i, j \in DOMAIN oseq : \A k \in DOMAIN oseq[i].jobs : \A l \in DOMAIN oseq[j].jobs :
          (i # j \/ k # l) =>
             {oseq[i].jobs[k].spans[m].eid : m \in DOMAIN oseq[i].jobs[k].spans}
                \cap {oseq[j].jobs[l].spans[m].eid : m \in DOMAIN oseq[j].jobs[l].spans} = {}
OutSet(oseq) == UNION {{[name |-> oseq[i].name, job |-> oseq[i].jobs[k].job,
                         spans |-> {oseq[i].jobs[k].spans[m] : m \in DOMAIN oseq[i].jobs[k].spans}]
                        : k \in DOMAIN oseq[i].jobs} : i \in DOMAIN oseq}
=============================================================================
