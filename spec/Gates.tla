-------------------------------- MODULE Gates --------------------------------
(***************************************************************************)
(* Denotation of AND / OR / XOR gate trees over event types: the family    *)
(* Out(tree) of successor sets the tree admits.                            *)
(*   Out(leaf e) = {{e}}                                                   *)
(*   Out(XOR)    = union of the children's families                        *)
(*   Out(AND)    = one outcome of every child, united                      *)
(*   Out(OR)     = one outcome of every child of some non-empty subset     *)
(* A tree is a record [op, e, c]: op in {"leaf","xor","and","or"}, e the   *)
(* event type of a leaf, c the sequence of children.                       *)
(*                                                                         *)
(* Mode "family": one state per tree of GateData.Trees; TLC prints the     *)
(* family and whether the tree lies in the exactness sub-class (all OR     *)
(* gates join only leaves, no AND has two OR children).                    *)
(* Mode "judge": GateData.Pairs holds [src, inf]: a source tree and the    *)
(* tree the real calculate_logic_gates inferred from Out(src); TLC decides *)
(* soundness Out(src) \subseteq Out(inf) and exactness Out(inf) = Out(src).*)
(***************************************************************************)
EXTENDS Naturals, Sequences, FiniteSets, TLC, GateData

VARIABLE i
vars == <<i>>

RECURSIVE Out(_)
RECURSIVE Prod(_)
RECURSIVE SubSeqs(_)
\* all combinations of one outcome per child, united
Prod(cs) == IF cs = <<>> THEN {{}} ELSE {a \cup b : a \in Out(Head(cs)), b \in Prod(Tail(cs))}
\* all sub-sequences of a sequence of children
SubSeqs(cs) == IF cs = <<>> THEN {<<>>}
               ELSE LET r == SubSeqs(Tail(cs)) IN r \cup {<<Head(cs)>> \o x : x \in r}
Out(t) == CASE t.op = "leaf" -> {{t.e}}
            [] t.op = "xor" -> UNION {Out(t.c[k]) : k \in DOMAIN t.c}
            [] t.op = "and" -> Prod(t.c)
            [] t.op = "or" -> UNION {Prod(s) : s \in SubSeqs(t.c) \ {<<>>}}
            [] OTHER -> {}

RECURSIVE Nodes(_)
Nodes(t) == {t} \cup UNION {Nodes(t.c[k]) : k \in DOMAIN t.c}
RECURSIVE Leaves(_)
Leaves(t) == IF t.op = "leaf" THEN {t.e} ELSE UNION {Leaves(t.c[k]) : k \in DOMAIN t.c}
Kids(t) == {t.c[k] : k \in DOMAIN t.c}
Exactable(t) == \A n \in Nodes(t) :
                   /\ (n.op = "or" => \A k \in Kids(n) : k.op = "leaf")
                   /\ (n.op = "and" => Cardinality({k \in Kids(n) : k.op = "or"}) <= 1)
WellFormed(t) == \A n \in Nodes(t) : n.op \in {"leaf", "xor", "and", "or"} /\ (n.op # "leaf" => Len(n.c) >= 1)

FamilyMode == Pairs = <<>>
Init == i \in 1..(IF FamilyMode THEN Len(Trees) ELSE Len(Pairs))
Next == FALSE /\ UNCHANGED vars
Spec == Init /\ [][Next]_vars

\* self-check of the denotation (B3): every outcome is a non-empty set of the tree's leaves and every leaf occurs
OutSane == FamilyMode => LET t == Trees[i] IN
              /\ \A s \in Out(t) : s # {} /\ s \subseteq Leaves(t)
              /\ UNION Out(t) = Leaves(t)

Sound(p) == Out(p.src) \subseteq Out(p.inf)
Exact(p) == Out(p.inf) = Out(p.src)
Report == IF FamilyMode THEN PrintT(<<"FAM", i, Out(Trees[i]), Exactable(Trees[i])>>)
          ELSE LET p == Pairs[i] IN
               PrintT(<<"V", i, WellFormed(p.inf), Sound(p), Exact(p), Exactable(p.src),
                        IF Sound(p) THEN {} ELSE Out(p.src) \ Out(p.inf),
                        IF Exact(p) THEN {} ELSE Out(p.inf) \ Out(p.src)>>)
=============================================================================
