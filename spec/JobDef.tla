------------------------------- MODULE JobDef -------------------------------
(***************************************************************************)
(* Small-step operational semantics of block-structured job definitions    *)
(* (sequence, event, AND / OR / XOR fork, loop, break, detach).            *)
(*                                                                         *)
(* The same module is used in two modes, selected by the generated data    *)
(* module JobData:                                                         *)
(*   generation mode (Traces = <<>>): one initial state per definition in  *)
(*     Defs; terminal states with no thread left are the jobs Jobs_K(D),   *)
(*     each loop activation running 1..K times;                            *)
(*   trace mode: one initial state per trace; Emit must match the next     *)
(*     trace line (event type and predecessor set); a trace is accepted    *)
(*     iff a state with no thread left, no error and the whole trace       *)
(*     consumed is reachable.  Loops are unbounded in trace mode.          *)
(*                                                                         *)
(* A job is a set of event instances [id, ty, pv]; pv is the set of ids of *)
(* the instance's direct predecessors - exactly what the learner reads     *)
(* (eventType, previousEventIds).                                          *)
(***************************************************************************)
EXTENDS Naturals, Sequences, FiniteSets, TLC, JobData
\* JobData (generated) defines:
\*   Defs   == << definition literal, ... >>
\*   Traces == << [d |-> index into Defs, evs |-> << [id, ty, pv], ... >>], ... >>
\*   K      == loop bound of generation mode

VARIABLES di,      \* index of the definition being executed
          tid,     \* index of the trace being validated (0 in generation mode)
          l,       \* 1 + number of trace events consumed (trace mode)
          used,    \* ids of the trace events consumed so far (trace mode)
          job,     \* set of instances emitted so far (generation mode)
          thr,     \* set of threads
          joins,   \* join table: sequence of [need, fr, alive, k]
          nj,      \* number of joins allocated
          nid,     \* number of instances emitted (generation mode)
          err      \* an ill-formed construct was executed (break across a join / outside a loop)
vars == <<di, tid, l, used, job, thr, joins, nj, nid, err>>

GenMode == Traces = <<>>
Tr == Traces[tid].evs

SeqFrame(n) == [t |-> "seq", n |-> n, i |-> 1]
LoopFrame(n, it, l0) == [t |-> "loop", n |-> n, it |-> it, l0 |-> l0]
JoinFrame(j) == [t |-> "join", j |-> j]

Thread(k, f, m) == [k |-> k, f |-> f, m |-> m]   \* m: "run" | "dead" | "brk"

Init == /\ IF GenMode THEN tid = 0 /\ di \in 1..Len(Defs)
                      ELSE tid \in 1..Len(Traces) /\ di = Traces[tid].d
        /\ l = 1 /\ used = {}
        /\ job = {}
        /\ thr = {Thread(<<SeqFrame(Defs[di])>>, {}, "run")}
        /\ joins = <<>>
        /\ nj = 0 /\ nid = 0 /\ err = FALSE

Top(t) == Head(t.k)
Rest(t) == Tail(t.k)
AtItem(t) == t.k # <<>> /\ Top(t).t = "seq" /\ Top(t).i <= Len(Top(t).n.c)
CurItem(t) == Top(t).n.c[Top(t).i]
Adv(t) == <<[Top(t) EXCEPT !.i = @ + 1]>> \o Rest(t)     \* stack with the current item consumed

Replace(t, new) == thr' = (thr \ {t}) \cup new

(* ---------------- silent steps of one thread ---------------- *)
Finish(t) == /\ t.k = <<>> /\ t.m # "brk"
             /\ Replace(t, {})
             /\ UNCHANGED <<job, joins, nj, nid, err>>

PopSeq(t) == /\ t.k # <<>> /\ Top(t).t = "seq"
             /\ (t.m # "run" \/ Top(t).i > Len(Top(t).n.c))
             /\ Replace(t, {[t EXCEPT !.k = Rest(t)]})
             /\ UNCHANGED <<job, joins, nj, nid, err>>

ChooseXor(t) == /\ t.m = "run" /\ AtItem(t) /\ CurItem(t).k = "xor"
                /\ \E b \in 1..Len(CurItem(t).c) :
                      Replace(t, {[t EXCEPT !.k = <<SeqFrame(CurItem(t).c[b])>> \o Adv(t)]})
                /\ UNCHANGED <<job, joins, nj, nid, err>>

Fork(t) == /\ t.m = "run" /\ AtItem(t) /\ CurItem(t).k \in {"and", "or"}
           /\ LET n == CurItem(t)
                  all == 1..Len(n.c)
              IN \E S \in (IF n.k = "and" THEN {all} ELSE (SUBSET all) \ {{}}) :
                    /\ nj' = nj + 1
                    /\ joins' = Append(joins, [need |-> Cardinality(S), fr |-> {}, alive |-> FALSE, k |-> Adv(t)])
                    /\ Replace(t, {Thread(<<SeqFrame(n.c[b]), JoinFrame(nj + 1)>>, t.f, "run") : b \in S})
           /\ UNCHANGED <<job, nid, err>>

EnterLoop(t) == /\ t.m = "run" /\ AtItem(t) /\ CurItem(t).k = "loop"
                /\ Replace(t, {[t EXCEPT !.k = <<SeqFrame(CurItem(t).c[1]), LoopFrame(CurItem(t), 1, l)>> \o Adv(t)]})
                /\ UNCHANGED <<job, joins, nj, nid, err>>

AtLoopEnd(t) == t.k # <<>> /\ Top(t).t = "loop"
LoopBack(t) == /\ t.m = "run" /\ AtLoopEnd(t)
               /\ IF GenMode THEN Top(t).it < K ELSE (l > Top(t).l0 /\ l <= Len(Tr))
               /\ Replace(t, {[t EXCEPT !.k = <<SeqFrame(Top(t).n.c[1]), LoopFrame(Top(t).n, Top(t).it + 1, l)>> \o Rest(t)]})
               /\ UNCHANGED <<job, joins, nj, nid, err>>
LoopExit(t) == /\ AtLoopEnd(t)                      \* normal exit, end of break unwinding, dead unwinding
               /\ Replace(t, {[t EXCEPT !.k = Rest(t), !.m = IF @ = "brk" THEN "run" ELSE @]})
               /\ UNCHANGED <<job, joins, nj, nid, err>>

Break(t) == /\ t.m = "run" /\ AtItem(t) /\ CurItem(t).k = "break"
            /\ Replace(t, {[t EXCEPT !.m = "brk"]})
            /\ UNCHANGED <<job, joins, nj, nid, err>>
Detach(t) == /\ t.m = "run" /\ AtItem(t) /\ CurItem(t).k = "detach"
             /\ Replace(t, {[t EXCEPT !.m = "dead"]})
             /\ UNCHANGED <<job, joins, nj, nid, err>>

Arrive(t) == /\ t.k # <<>> /\ Top(t).t = "join"
             /\ LET j == Top(t).j
                    jr == joins[j]
                    live == t.m = "run"
                    nfr == IF live THEN jr.fr \cup t.f ELSE jr.fr
                    nal == jr.alive \/ live
                IN /\ joins' = [joins EXCEPT ![j] = [@ EXCEPT !.need = @ - 1, !.fr = nfr, !.alive = nal]]
                   /\ IF jr.need = 1
                        THEN Replace(t, {Thread(jr.k, nfr, IF nal THEN "run" ELSE "dead")})
                        ELSE Replace(t, {})
                   /\ err' = (err \/ t.m = "brk")       \* break crossing an AND/OR join: ill-formed
             /\ UNCHANGED <<job, nj, nid>>

BrkNoLoop(t) == /\ t.m = "brk" /\ t.k = <<>>        \* break outside any loop: ill-formed
                /\ err' = TRUE /\ Replace(t, {})
                /\ UNCHANGED <<job, joins, nj, nid>>

Silent(t) == \/ Finish(t) \/ PopSeq(t) \/ ChooseXor(t) \/ Fork(t) \/ EnterLoop(t)
             \/ LoopBack(t) \/ LoopExit(t) \/ Break(t) \/ Detach(t) \/ Arrive(t) \/ BrkNoLoop(t)

SilentEnabled(t) == \/ t.k = <<>>
                    \/ Top(t).t \in {"loop", "join"}
                    \/ (Top(t).t = "seq" /\ (t.m # "run" \/ Top(t).i > Len(Top(t).n.c) \/ CurItem(t).k # "ev"))

(* ---------------- the one visible step ---------------- *)
AtEv(t) == t.m = "run" /\ AtItem(t) /\ CurItem(t).k = "ev"

EmitGen(t) == /\ AtEv(t)
              /\ nid' = nid + 1
              /\ job' = job \cup {[id |-> nid + 1, ty |-> CurItem(t).n, pv |-> t.f]}
              /\ Replace(t, {[t EXCEPT !.k = Adv(t), !.f = {nid + 1}]})
              /\ UNCHANGED <<l, used, joins, nj, err>>

\* a trace is a *set* of instances: the thread consumes any unused instance of its event type whose
\* predecessor set is the thread's frontier (so acceptance does not depend on the order of the lines)
Matches(t, i) == Tr[i].id \notin used /\ Tr[i].ty = CurItem(t).n /\ Tr[i].pv = t.f
EmitTr(t, i) == /\ AtEv(t) /\ Matches(t, i)
                /\ used' = used \cup {Tr[i].id} /\ l' = l + 1
                /\ Replace(t, {[t EXCEPT !.k = Adv(t), !.f = {Tr[i].id}]})
                /\ UNCHANGED <<job, nid, joins, nj, err>>

(* Canonical scheduling.  Silent steps come first, of one canonical thread.  Emits of different  *)
(* threads commute (a thread's emit depends only on its own frontier and on the instance being     *)
(* unused), so one canonical emitting thread is explored; what branches are the real choices:     *)
(* XOR branch, OR subset, loop back/exit, and in trace mode which matching instance is consumed.  *)
Sil == {t \in thr : SilentEnabled(t)}
CanEmit == {t \in thr : AtEv(t) /\ \E i \in DOMAIN Tr : Matches(t, i)}
Next == /\ UNCHANGED <<di, tid>>
        /\ thr # {}
        /\ IF Sil # {}
             THEN LET t == CHOOSE t \in Sil : TRUE IN Silent(t) /\ UNCHANGED <<l, used>>
             ELSE IF GenMode
                    THEN LET t == CHOOSE t \in thr : TRUE IN EmitGen(t)
                    ELSE /\ CanEmit # {}
                         /\ LET t == CHOOSE t \in CanEmit : TRUE IN \E i \in DOMAIN Tr : EmitTr(t, i)

Spec == Init /\ [][Next]_vars
FairSpec == Spec /\ WF_vars(Next)

Done == thr = {} /\ ~err
Accepted == Done /\ (GenMode \/ l = Len(Tr) + 1)

(* ---------------- design-level properties of the semantics itself ---------------- *)
Modes == {"run", "dead", "brk"}
TypeOK == /\ di \in 1..Len(Defs)
          /\ l \in 1..(IF GenMode THEN 1 ELSE Len(Tr) + 1)
          /\ l = Cardinality(used) + 1
          /\ GenMode \/ used \subseteq {Tr[i].id : i \in DOMAIN Tr}
          /\ \A t \in thr : t.m \in Modes /\ \A i \in DOMAIN t.k : t.k[i].t \in {"seq", "loop", "join"}
          /\ nj = Len(joins)
          /\ \A t \in thr : \A i \in DOMAIN t.k : t.k[i].t = "join" => t.k[i].j \in 1..nj
          /\ err \in BOOLEAN
\* predecessors exist and were emitted earlier (ids are allocated in emission order)
JobIsDag == \A e \in job : \A p \in e.pv : p < e.id /\ \E x \in job : x.id = p
\* an instance id is emitted once
SingleUse == /\ \A a, b \in job : a.id = b.id => a = b
             /\ Cardinality(job) = nid
\* every open join waits for exactly as many arrivals as there are carriers of its frame: running
\* threads that hold the frame, plus open inner joins whose stored continuation holds it
Carries(k, j) == \E i \in DOMAIN k : k[i] = JoinFrame(j)
JoinsConsistent == \A j \in 1..nj :
                      joins[j].need = Cardinality({t \in thr : Carries(t.k, j)})
                                      + Cardinality({i \in 1..nj : joins[i].need > 0 /\ Carries(joins[i].k, j)})
\* generation mode terminates (checked under FairSpec, no state constraint)
Terminates == <>(thr = {})

(* ---------------- reporting "invariants" (always TRUE; side effect prints) ---------------- *)
Report == Accepted => IF GenMode THEN PrintT(<<"JOB", di, job>>) ELSE PrintT(<<"ACC", tid>>)
ReportErr == (thr = {} /\ err) => PrintT(<<"ERR", di, tid>>)
ReportPrefix == GenMode \/ PrintT(<<"PFX", tid, l, used>>)
NoErr == ~err
=============================================================================
