----------------------------- MODULE ModelCache -----------------------------
(***************************************************************************)
(* The learner's persistent model as state (tel2puml/events.py):           *)
(* per event type the set of outgoing and of incoming bags of event types  *)
(* seen directly after / before it, a staleness flag, the bags the cached  *)
(* gate tree was computed from, and the model file (-om / -im).            *)
(*                                                                         *)
(* Actions mirror the code:                                                *)
(*   Ingest(j)  update_and_create_events_from_clustered_pvevents on one    *)
(*              job: out / in bags united; an event type is marked stale   *)
(*              whenever a non-empty successor bag is recorded             *)
(*   Read(t)    Event.logic_gate_tree: recompute iff stale                 *)
(*   Save       save_events_to_file                                       *)
(*   Load       load_events_from_file: flags as event_inputs_to_events     *)
(*              leaves them (stale iff the loaded type has successor bags) *)
(* TLC checks CacheCoherent, UnionIsOrderFree and RoundTrip for every      *)
(* history up to the bound, and prints every reachable state with its      *)
(* history; the harness replays the histories on real Event objects /      *)
(* files and compares the projection after every action.                   *)
(***************************************************************************)
EXTENDS Naturals, Sequences, FiniteSets, TLC, MCData
\* MCData (generated) defines
\*   Jobs: sequence of jobs, a job = set of instances [id, ty, pv (set of ids)]
\*   MaxHist: bound on the history length
\*   LoadMarksStale: TRUE (the code as repaired); FALSE reproduces the defect F-C04

VARIABLES known,   \* event types in the model
          out,     \* type |-> set of bags (bag = set of <<type, count>>)
          inn,     \* type |-> set of bags
          stale,   \* type |-> BOOLEAN
          cached,  \* type |-> <<has tree, bags the tree was computed from>>
          file,    \* <<exists, [known, out, inn, fed]>>
          fed,     \* history: indices of the jobs the model has been learned from
          hist     \* history: labels of the actions taken
vars == <<known, out, inn, stale, cached, file, fed, hist>>

Types == UNION {{e.ty : e \in Jobs[j]} : j \in DOMAIN Jobs}
BagOf(S) == {<<t, Cardinality({x \in S : x.ty = t})>> : t \in {x.ty : x \in S}}
Succ(job, e) == {x \in job : e.id \in x.pv}
Pred(job, e) == {x \in job : x.id \in e.pv}
OutBags(job, t) == {BagOf(Succ(job, e)) : e \in {e \in job : e.ty = t /\ Succ(job, e) # {}}}
InBags(job, t) == {BagOf(Pred(job, e)) : e \in {e \in job : e.ty = t /\ Pred(job, e) # {}}}

NoFile == <<FALSE, [known |-> {}, out |-> <<>>, inn |-> <<>>, fed |-> {}]>>
Init == /\ known = {} /\ out = [t \in Types |-> {}] /\ inn = [t \in Types |-> {}]
        /\ stale = [t \in Types |-> FALSE] /\ cached = [t \in Types |-> <<FALSE, {}>>]
        /\ file = NoFile /\ fed = {} /\ hist = <<>>

Ingest(j) == LET job == Jobs[j] IN
             /\ known' = known \cup {e.ty : e \in job}
             /\ out' = [t \in Types |-> out[t] \cup OutBags(job, t)]
             /\ inn' = [t \in Types |-> inn[t] \cup InBags(job, t)]
             /\ stale' = [t \in Types |-> stale[t] \/ OutBags(job, t) # {}]
             /\ fed' = fed \cup {j}
             /\ hist' = Append(hist, <<"ingest", j>>)
             /\ UNCHANGED <<cached, file>>
Read(t) == /\ t \in known
           /\ IF stale[t] THEN cached' = [cached EXCEPT ![t] = <<TRUE, out[t]>>] /\ stale' = [stale EXCEPT ![t] = FALSE]
                          ELSE UNCHANGED <<cached, stale>>
           /\ hist' = Append(hist, <<"read", t>>)
           /\ UNCHANGED <<known, out, inn, file, fed>>
Save == /\ known # {}
        /\ file' = <<TRUE, [known |-> known, out |-> out, inn |-> inn, fed |-> fed]>>
        /\ hist' = Append(hist, <<"save", 0>>)
        /\ UNCHANGED <<known, out, inn, stale, cached, fed>>
Load == /\ file[1]
        /\ known' = file[2].known /\ out' = file[2].out /\ inn' = file[2].inn /\ fed' = file[2].fed
        /\ stale' = [t \in Types |-> LoadMarksStale /\ file[2].out[t] # {}]
        /\ cached' = [t \in Types |-> <<FALSE, {}>>]
        /\ hist' = Append(hist, <<"load", 0>>)
        /\ UNCHANGED file
Next == /\ Len(hist) < MaxHist
        /\ \/ \E j \in DOMAIN Jobs : Ingest(j)
           \/ \E t \in Types : Read(t)
           \/ Save \/ Load
Spec == Init /\ [][Next]_vars

(* ---------------- properties ---------------- *)
\* what reading the tree of t returns: the tree of these bags (FALSE: no tree)
TreeSource(t) == IF stale[t] THEN <<TRUE, out[t]>> ELSE cached[t]
\* C04 "reloading a model with no new evidence still reproduces the logic": the tree an event hands out is always
\* the tree of its current successor bags
CacheCoherent == \A t \in known : TreeSource(t) = <<out[t] # {}, out[t]>>
\* the model depends only on the set of jobs it was learned from - not on their order, on repetitions, or on
\* save / load boundaries in between
UnionIsOrderFree == /\ known = UNION {{e.ty : e \in Jobs[j]} : j \in fed}
                    /\ \A t \in Types : /\ out[t] = UNION {OutBags(Jobs[j], t) : j \in fed}
                                        /\ inn[t] = UNION {InBags(Jobs[j], t) : j \in fed}
\* the file holds every event type, bag and count of the model it was written from
RoundTrip == [][(file' # file) => (file'[2].known = known /\ file'[2].out = out /\ file'[2].inn = inn)]_vars

(* ---------------- every reachable state, for replay (always TRUE) ---------------- *)
Report == PrintT(<<"ST", hist, known, [t \in known |-> [o |-> out[t], i |-> inn[t], s |-> stale[t], c |-> TreeSource(t)]]>>)
=============================================================================
