------------------------------ MODULE LoopNest ------------------------------
(***************************************************************************)
(* Loop extraction as a relation between a directly-follows graph of event *)
(* types and the nesting of graphs returned by detect_loops, and the       *)
(* invariants C07 states about that nesting.                               *)
(*                                                                         *)
(* A nesting is a record [nodes, edges, subs]:                             *)
(*   nodes: set of [id, ty, kind], kind in {"event", "loop", "dummy"}      *)
(*   edges: set of <<id, id>>                                              *)
(*   subs : set of [loop |-> id of a loop node, start, end: ids in the     *)
(*          body, breaks: set of ids, g |-> nesting of the loop's body]    *)
(* The input graph is [types, edges] over event types (the dummy start     *)
(* event of the ingestion included).                                       *)
(*                                                                         *)
(* The abstract extraction machine (B3) is the separate module             *)
(* LoopExtract.tla; this module judges observed nestings.                  *)
(* Observation mode (B2): one state per nesting observed from the real     *)
(* detect_loops; the same invariants are evaluated on it.                  *)
(***************************************************************************)
EXTENDS Naturals, Sequences, FiniteSets, TLC, LoopData
\* LoopData (generated) defines Obs: sequence of [input |-> [types, edges], nest |-> nesting]

VARIABLE i
vars == <<i>>

Ids(g) == {n.id : n \in g.nodes}
Succ(g, x) == {e[2] : e \in {e \in g.edges : e[1] = x}}
RECURSIVE ReachN(_, _, _)
ReachN(g, S, n) == IF n = 0 THEN S ELSE ReachN(g, S \cup UNION {Succ(g, x) : x \in S}, n - 1)
\* nodes reachable from x in one or more steps
Reach(g, x) == ReachN(g, Succ(g, x), Cardinality(g.nodes))
Acyclic(g) == \A x \in Ids(g) : x \notin Reach(g, x)
Sources(g) == {x \in Ids(g) : ~\E e \in g.edges : e[2] = x}
SingleEntry(g) == /\ Cardinality(Sources(g)) = 1
                  /\ \A x \in Ids(g) : x \in Sources(g) \/ x \in Reach(g, CHOOSE s \in Sources(g) : TRUE)
EdgesClosed(g) == \A e \in g.edges : e[1] \in Ids(g) /\ e[2] \in Ids(g)

RECURSIVE Levels(_)
Levels(g) == {g} \cup UNION {Levels(s.g) : s \in g.subs}
\* occurrences of event types in the whole nesting: <<path of loop ids, node id, type>>
RECURSIVE Occ(_, _)
Occ(g, path) == {<<path, n.id, n.ty>> : n \in {n \in g.nodes : n.kind = "event"}}
                \cup UNION {Occ(s.g, Append(path, s.loop)) : s \in g.subs}
RECURSIVE Content(_)
Content(g) == {n.ty : n \in {n \in g.nodes : n.kind = "event"}} \cup UNION {Content(s.g) : s \in g.subs}
RECURSIVE Bodies(_)
Bodies(g) == {s.g : s \in g.subs} \cup UNION {Bodies(s.g) : s \in g.subs}

\* every loop node has exactly one body, whose start / end / break ids are nodes of that body
SubsWellFormed(g) == \A lv \in Levels(g) :
                        /\ {n.id : n \in {n \in lv.nodes : n.kind = "loop"}} = {s.loop : s \in lv.subs}
                        /\ \A a, b \in lv.subs : a.loop = b.loop => a = b
                        /\ \A s \in lv.subs : {s.start, s.end} \cup s.breaks \subseteq Ids(s.g)

(* ---------------- the four invariants of C07 ---------------- *)
\* every graph of the nesting can be ordered: acyclic, with a single entry
AllAcyclic(g) == \A lv \in Levels(g) : EdgesClosed(lv) /\ Acyclic(lv)
AllSingleEntry(g) == \A lv \in Levels(g) : SingleEntry(lv)
\* each observed event type exactly once across the nesting, nothing invented
Partition(inp, g) == /\ {o[3] : o \in Occ(g, <<>>)} = inp.types
                     /\ \A a, b \in Occ(g, <<>>) : a[3] = b[3] => a = b
\* every cyclic dependency of the input lies inside some loop body
InReach(inp, S, n) == LET RECURSIVE R(_, _)
                          R(T, k) == IF k = 0 THEN T ELSE R(T \cup {e[2] : e \in {e \in inp.edges : e[1] \in T}}, k - 1)
                      IN R(S, n)
OnCycle(inp, e) == e[1] \in InReach(inp, {e[2]}, Cardinality(inp.types))
CyclesInside(inp, g) == \A e \in inp.edges : OnCycle(inp, e) => \E b \in Bodies(g) : {e[1], e[2]} \subseteq Content(b)

\* every violated invariant is named (a nesting that is malformed in one respect may be wrong in another too)
Verdict(o) == LET wf == SubsWellFormed(o.nest)
                  bad == (IF wf THEN {} ELSE {"malformed"})
                         \cup (IF AllAcyclic(o.nest) THEN {} ELSE {"cycle-left"})
                         \cup (IF AllSingleEntry(o.nest) THEN {} ELSE {"entry"})
                         \cup (IF Partition(o.input, o.nest) THEN {} ELSE {"partition"})
                         \cup (IF CyclesInside(o.input, o.nest) THEN {} ELSE {"cycle-outside-loop"})
              IN bad

Init == i \in 1..Len(Obs)
Next == FALSE /\ UNCHANGED vars
Spec == Init /\ [][Next]_vars
Report == PrintT(<<"V", i, Verdict(Obs[i])>>)
=============================================================================
