---- MODULE CliData ----
\* stub of the generated data module (harness/cli_model.py writes the real one)
Workflows == {"wf0", "wf 1"}
JobName == "wf0"
MaxDev == 1
====
