----------------------------- MODULE LoopExtract -----------------------------
(***************************************************************************)
(* Abstract machine of loop extraction (design-level model checking, B3 of *)
(* C07): starting from ANY rooted digraph over a few nodes, repeatedly     *)
(* collapse a cyclic strongly connected component of some graph of the     *)
(* nesting into a fresh loop node and move the component into a new body   *)
(* graph with a dummy start and a dummy end:                               *)
(*   - in the parent, edges into the component go to the loop node, edges  *)
(*     leaving it start from the loop node;                                *)
(*   - in the body, the dummy start points to the entries (nodes of the    *)
(*     component with a predecessor outside it, or the root); the edges    *)
(*     back into an entry are the loop edges: they are removed and their   *)
(*     sources point to the dummy end, as do the nodes with an edge        *)
(*     leaving the component.                                              *)
(* This is the contract the real detect_loops implements for loops without *)
(* breaks and kill paths (those only move further nodes into the body).    *)
(* TLC checks for every digraph with at most N nodes and every order of    *)
(* extraction that the machine terminates in a nesting that satisfies the  *)
(* invariants C07 states: every graph acyclic with a single entry, every   *)
(* input node exactly once, every input edge that lies on a cycle inside   *)
(* one body.                                                               *)
(***************************************************************************)
EXTENDS Naturals, FiniteSets, Sequences, TLC

CONSTANT N            \* number of input nodes (1 is the root)
Nodes == 1..N
\* ids: input nodes 1..N; loop nodes 100+k; dummy start 200+k, dummy end 300+k of body k
VARIABLES input,    \* the input edges (chosen once)
          g,        \* gid |-> [nodes, edges]; gid 0 is the top graph, gid k the body of loop k
          nloops,   \* number of loops extracted
          phase     \* "pick" (choose the input graph) | "run" | "done"
vars == <<input, g, nloops, phase>>

Succ(E, x) == {e[2] : e \in {e \in E : e[1] = x}}
RECURSIVE ReachN(_, _, _)
ReachN(E, S, k) == IF k = 0 THEN S ELSE ReachN(E, S \cup UNION {Succ(E, x) : x \in S}, k - 1)
Reach(E, x, bound) == ReachN(E, Succ(E, x), bound)
Rooted(E) == Nodes \subseteq ({1} \cup Reach(E, 1, N))

Init == /\ input \in {E \in SUBSET (Nodes \X Nodes) : Rooted(E)}
        /\ g = [k \in {0} |-> [nodes |-> Nodes, edges |-> input]]
        /\ nloops = 0 /\ phase = "run"

Bound(gr) == Cardinality(gr.nodes)
OnCycle(gr, x) == x \in Reach(gr.edges, x, Bound(gr))
Scc(gr, x) == {y \in gr.nodes : (y = x) \/ (y \in Reach(gr.edges, x, Bound(gr)) /\ x \in Reach(gr.edges, y, Bound(gr)))}
Cyclic(gr) == \E x \in gr.nodes : OnCycle(gr, x)

Extract(k, x) ==
    LET gr == g[k]
        S == Scc(gr, x)
        L == 100 + nloops + 1
        st == 200 + nloops + 1
        en == 300 + nloops + 1
        inE == {e \in gr.edges : e[1] \notin S /\ e[2] \in S}
        outE == {e \in gr.edges : e[1] \in S /\ e[2] \notin S}
        inner == {e \in gr.edges : e[1] \in S /\ e[2] \in S}
        entries == {e[2] : e \in inE} \cup (IF 1 \in S THEN {1} ELSE {})
                   \cup (IF \E d \in S : d >= 200 /\ d < 300 THEN {d \in S : d >= 200 /\ d < 300} ELSE {})
        ent == IF entries = {} THEN {CHOOSE y \in S : TRUE} ELSE entries
        back == {e \in inner : e[2] \in ent}
        enders == {e[1] : e \in back} \cup {e[1] : e \in outE}
    IN /\ OnCycle(gr, x)
       /\ g' = [j \in DOMAIN g \cup {nloops + 1} |->
                  IF j = k THEN [nodes |-> (gr.nodes \ S) \cup {L},
                                 edges |-> {e \in gr.edges : e[1] \notin S /\ e[2] \notin S}
                                           \cup {<<e[1], L>> : e \in inE} \cup {<<L, e[2]>> : e \in outE}]
                  ELSE IF j = nloops + 1 THEN [nodes |-> S \cup {st, en},
                                               edges |-> (inner \ back) \cup {<<st, y>> : y \in ent}
                                                         \cup {<<y, en>> : y \in enders}]
                  ELSE g[j]]
       /\ nloops' = nloops + 1
       /\ UNCHANGED <<input, phase>>

Finish == /\ phase = "run" /\ \A k \in DOMAIN g : ~Cyclic(g[k])
          /\ phase' = "done" /\ UNCHANGED <<input, g, nloops>>
Next == \/ (phase = "run" /\ \E k \in DOMAIN g : \E x \in g[k].nodes : Extract(k, x))
        \/ Finish
Spec == Init /\ [][Next]_vars /\ WF_vars(Next)

(* ---------------- the invariants of C07 on the final nesting ---------------- *)
Sources(gr) == {x \in gr.nodes : ~\E e \in gr.edges : e[2] = x}
SingleEntry(gr) == /\ Cardinality(Sources(gr)) = 1
                   /\ \A x \in gr.nodes : x \in Sources(gr) \/ x \in Reach(gr.edges, CHOOSE s \in Sources(gr) : TRUE, Bound(gr))
AllAcyclicSingleEntry == (phase = "done") => \A k \in DOMAIN g : ~Cyclic(g[k]) /\ SingleEntry(g[k])
Partition == (phase = "done") => /\ UNION {g[k].nodes \cap Nodes : k \in DOMAIN g} = Nodes
                                 /\ \A j, k \in DOMAIN g : j # k => g[j].nodes \cap g[k].nodes \cap Nodes = {}
\* input nodes inside the body k, including nested bodies (body j is nested in k iff its loop node 100+j is in k's content)
RECURSIVE Content(_, _)
Content(k, fuel) == (g[k].nodes \cap Nodes)
                    \cup (IF fuel = 0 THEN {} ELSE UNION {Content(j, fuel - 1) : j \in {j \in DOMAIN g : (100 + j) \in g[k].nodes}})
InputOnCycle(e) == e[1] \in ({e[2]} \cup Reach(input, e[2], N))
CyclesInside == (phase = "done") =>
                  \A e \in input : InputOnCycle(e) => \E k \in DOMAIN g \ {0} : {e[1], e[2]} \subseteq Content(k, N)
\* the machine always terminates (every extraction removes a cycle: at most N loops)
BoundedLoops == nloops <= N
Terminates == <>(phase = "done")
=============================================================================
