---- MODULE JobData ----
(* Stub of the generated data module (the harness overwrites it per run). *)
EXTENDS Naturals, Sequences, TLC
K == 2
Defs == << [k |-> "seq", c |-> << [k |-> "ev", n |-> "A"],
                                  [k |-> "xor", c |-> << [k |-> "seq", c |-> << [k |-> "ev", n |-> "B"] >>],
                                                         [k |-> "seq", c |-> << [k |-> "ev", n |-> "C"] >>] >>] >>] >>
Traces == <<>>
====
