------------------------------- MODULE PvTime -------------------------------
(***************************************************************************)
(* Exact calendar arithmetic between OTel times (Unix nanoseconds) and PV  *)
(* timestamp strings "YYYY-MM-DDThh:mm:ss.ffffffZ" (UTC, microseconds).    *)
(*                                                                         *)
(* TLC integers are 32 bit, so an instant is the record                    *)
(*   [d |-> days since 1970-01-01, s |-> second of the day, us |-> micro-  *)
(*    second of the second, ns |-> nanoseconds below the microsecond]      *)
(* (the harness splits the exact Python integer with divmod) and a PV      *)
(* string is the record of its fields [Y, M, D, h, m, sec, us].            *)
(*                                                                         *)
(* Self-check mode (PvData.Obs = <<>>): one state per instant of the       *)
(* boundary grid; the two conversions are mutually inverse and strictly    *)
(* monotone on the grid.                                                   *)
(* Observation mode: one state per observed call of the real converters;   *)
(* each observed (argument, result) pair must agree with the operators.    *)
(***************************************************************************)
EXTENDS Integers, Sequences, FiniteSets, TLC, PvData
\* PvData (generated) defines DayRange (a set of day numbers, {} except in calendar mode) and Obs: sequence of
\*   [k |-> "n2p", x |-> instant, p |-> fields]     unix_nano_to_pv_string(x) returned the string with fields p
\*   [k |-> "p2n", p |-> fields, x |-> instant]     convert_timestamp_to_unix_nano(string of p) returned x
\*   [k |-> "ord", x |-> instant, y |-> instant, p |-> fields, q |-> fields]   x < y were converted to p and q
\*   [k |-> "ordw", ...]   the same for instants with a sub-microsecond part: the order may collapse, never reverse

VARIABLES i, inst
vars == <<i, inst>>

(* ---------------- civil calendar (proleptic Gregorian), days since 1970-01-01 ---------------- *)
CivilFromDays(z0) ==
    LET z == z0 + 719468
        era == z \div 146097
        doe == z - era * 146097
        yoe == (doe - doe \div 1460 + doe \div 36524 - doe \div 146096) \div 365
        y == yoe + era * 400
        doy == doe - (365 * yoe + yoe \div 4 - yoe \div 100)
        mp == (5 * doy + 2) \div 153
        d == doy - (153 * mp + 2) \div 5 + 1
        m == IF mp < 10 THEN mp + 3 ELSE mp - 9
    IN [Y |-> IF m <= 2 THEN y + 1 ELSE y, M |-> m, D |-> d]

DaysFromCivil(Y, M, D) ==
    LET y == IF M <= 2 THEN Y - 1 ELSE Y
        era == y \div 400
        yoe == y - era * 400
        doy == (153 * (IF M > 2 THEN M - 3 ELSE M + 9) + 2) \div 5 + D - 1
        doe == yoe * 365 + yoe \div 4 - yoe \div 100 + doy
    IN era * 146097 + doe - 719468

IsLeap(Y) == (Y % 4 = 0 /\ Y % 100 # 0) \/ Y % 400 = 0
DaysIn(Y, M) == CASE M \in {1, 3, 5, 7, 8, 10, 12} -> 31 [] M \in {4, 6, 9, 11} -> 30
                  [] OTHER -> IF IsLeap(Y) THEN 29 ELSE 28

(* ---------------- the two conversions ---------------- *)
\* the microsecond value is preserved.  For an instant with a sub-microsecond part (OTel times are nanoseconds) the
\* statement leaves open whether that part is truncated or rounded; NsToPv is the truncation, NsToPvUp the next
\* microsecond, and an observed conversion of such an instant must be one of the two (see ObsOk)
NsToPv(x) == LET c == CivilFromDays(x.d)
             IN [Y |-> c.Y, M |-> c.M, D |-> c.D, h |-> x.s \div 3600, m |-> (x.s % 3600) \div 60, sec |-> x.s % 60,
                 us |-> x.us]
PvToNs(p) == [d |-> DaysFromCivil(p.Y, p.M, p.D), s |-> p.h * 3600 + p.m * 60 + p.sec, us |-> p.us, ns |-> 0]

\* the next microsecond, with carry into the second and the day
AddUs(x) == IF x.us < 999999 THEN [x EXCEPT !.us = x.us + 1, !.ns = 0]
            ELSE IF x.s < 86399 THEN [x EXCEPT !.us = 0, !.s = x.s + 1, !.ns = 0]
            ELSE [d |-> x.d + 1, s |-> 0, us |-> 0, ns |-> 0]
NsToPvUp(x) == NsToPv(AddUs(x))

ValidPv(p) == /\ p.M \in 1..12 /\ p.D \in 1..DaysIn(p.Y, p.M) /\ p.h \in 0..23 /\ p.m \in 0..59 /\ p.sec \in 0..59
              /\ p.us \in 0..999999
InstLess(x, y) == \/ x.d < y.d
                  \/ (x.d = y.d /\ x.s < y.s)
                  \/ (x.d = y.d /\ x.s = y.s /\ x.us < y.us)
InstLessNs(x, y) == InstLess(x, y) \/ (x.d = y.d /\ x.s = y.s /\ x.us = y.us /\ x.ns < y.ns)
\* order of the strings = lexicographic order of the fixed-width fields
PvLess(p, q) == LET a == <<p.Y, p.M, p.D, p.h, p.m, p.sec, p.us>>
                    b == <<q.Y, q.M, q.D, q.h, q.m, q.sec, q.us>>
                IN \E k \in 1..7 : a[k] < b[k] /\ \A j \in 1..(k - 1) : a[j] = b[j]

(* ---------------- boundary grid ---------------- *)
GridDays == {0, 1, 30, 31, 58, 59, 89, 364, 365, 366, 424, 425, 730, 789, 790, 1095, 1096,
             10956, 10957, 11015, 11016, 11017, 11322, 24855, 24856, 47481, 47482, 47540, 47541, 47542, 47846, 47847}
GridSecs == {0, 1, 59, 60, 3599, 3600, 43199, 43200, 86399}
GridUs == {0, 1, 499999, 500000, 999999}
GridNs == {0, 1, 499, 500, 501, 999}
Grid == {[d |-> d, s |-> s, us |-> u, ns |-> 0] : d \in GridDays, s \in GridSecs, u \in GridUs}

SelfMode == Obs = <<>>
\* calendar mode (PvData.DayRange # {}): one state per day number of the range, for the invariants that speak about one
\* instant only (RoundTripNs, RoundTripPv, NextDay, CarryOk): the whole calendar 1970..2100 instead of the grid days
AllDays == {[d |-> d, s |-> x[1], us |-> x[2], ns |-> 0] : d \in DayRange, x \in {<<0, 0>>, <<86399, 999999>>}}
Init == IF SelfMode THEN i = 0 /\ inst \in (IF DayRange = {} THEN Grid ELSE AllDays)
                    ELSE i \in 1..Len(Obs) /\ inst = [d |-> 0, s |-> 0, us |-> 0, ns |-> 0]
Next == FALSE /\ UNCHANGED vars
Spec == Init /\ [][Next]_vars

(* ---------------- self-consistency of the specification (B3) ---------------- *)
RoundTripNs == SelfMode => (ValidPv(NsToPv(inst)) /\ PvToNs(NsToPv(inst)) = inst)
RoundTripPv == SelfMode => NsToPv(PvToNs(NsToPv(inst))) = NsToPv(inst)
Monotone == SelfMode => \A y \in Grid : InstLess(inst, y) => PvLess(NsToPv(inst), NsToPv(y))
\* the calendar agrees with the day count: consecutive days are consecutive dates
\* rounding up carries correctly: the next microsecond is later than the instant and denotes exactly instant + 1 us
CarryOk == SelfMode => \A n \in GridNs :
              LET x == [inst EXCEPT !.ns = n]
              IN /\ ValidPv(NsToPvUp(x)) /\ InstLessNs(x, PvToNs(NsToPvUp(x)))
                 /\ (PvLess(NsToPv(x), NsToPvUp(x)))
                 /\ PvToNs(NsToPvUp(x)) = AddUs(x)
NextDay == SelfMode =>
             LET a == CivilFromDays(inst.d)
                 b == CivilFromDays(inst.d + 1)
             IN IF a.D < DaysIn(a.Y, a.M) THEN b = [a EXCEPT !.D = a.D + 1]
                ELSE IF a.M < 12 THEN b = [Y |-> a.Y, M |-> a.M + 1, D |-> 1]
                ELSE b = [Y |-> a.Y + 1, M |-> 1, D |-> 1]

(* ---------------- observed calls of the real converters (B2) ---------------- *)
ObsOk == LET o == Obs[i] IN
           CASE o.k = "n2p" -> IF o.x.ns = 0 THEN o.p = NsToPv(o.x) ELSE o.p \in {NsToPv(o.x), NsToPvUp(o.x)}
             [] o.k = "p2n" -> ValidPv(o.p) => o.x = PvToNs(o.p)
             [] o.k = "ord" -> InstLess(o.x, o.y) => PvLess(o.p, o.q)
             [] o.k = "ordw" -> InstLessNs(o.x, o.y) => ~PvLess(o.q, o.p)      \* nanosecond instants: never reversed
             [] OTHER -> FALSE
Report == SelfMode \/ (IF ObsOk THEN PrintT(<<"OK", i>>) ELSE PrintT(<<"BAD", i>>))
=============================================================================
