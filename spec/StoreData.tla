---- MODULE StoreData ----
(* Stub of the generated data module (the harness overwrites it per run). *)
EXTENDS Naturals, Sequences, FiniteSets, TLC
Spans == {[eid |-> "e1", par |-> "-", job |-> "j1", name |-> "n1", ty |-> "A", s |-> 1, e |-> 2],
          [eid |-> "e2", par |-> "e1", job |-> "j1", name |-> "n1", ty |-> "B", s |-> 1, e |-> 2]}
MaxLen == 2
Batches == {1, 2}
Buffers == {0}
MaxRuns == 1
RunFlags == {[ing |-> TRUE, ug |-> FALSE]}
CleanOn == TRUE
SameFiles == FALSE
Crashes == FALSE
Traces == <<>>
====
