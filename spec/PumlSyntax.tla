----------------------------- MODULE PumlSyntax -----------------------------
(***************************************************************************)
(* Push-down recogniser of the PlantUML activity-diagram dialect that      *)
(* otel2puml emits and plus2json consumes.  The token stream of an emitted *)
(* file (one token per line, produced by the harness lexer) is a trace of  *)
(* this machine: every line is one action.                                 *)
(*                                                                         *)
(*  frame    : @startuml / partition "n" { / group "n" ... end group / } / *)
(*             @enduml, exactly once, in this order                        *)
(*  blocks   : if-else-endif, switch-case-endswitch, fork-fork again-end   *)
(*             fork, split-split again-end split, repeat-repeat while;     *)
(*             a separator or terminator must belong to the innermost open *)
(*             block; a switch is directly followed by its first case      *)
(*  break    : only inside a repeat, and only as the last line of a branch *)
(*             (next line is a separator or terminator)                    *)
(*  detach   : only as the last line of a branch or of the diagram         *)
(*  names    : the event names are exactly the event types of the input;   *)
(*             no internal placeholder is ever written                     *)
(*                                                                         *)
(* Trace mode (PumlData.Gen = FALSE): one initial state per document.      *)
(* Generation mode (Gen = TRUE): tokens are chosen freely from Alphabet up *)
(* to MaxLen body tokens; accepted strings are printed and fed to the      *)
(* harness parser (grammar and parser must agree).                         *)
(***************************************************************************)
EXTENDS Naturals, Sequences, FiniteSets, TLC, PumlData
\* PumlData (generated) defines:
\*   Gen      == TRUE | FALSE
\*   Docs     == << [toks |-> << [t |-> "EV", v |-> "A", ph |-> FALSE], ... >>, types |-> {"A", ...}], ... >>
\*   MaxLen   == bound on body tokens (generation mode)
\*   Alphabet == set of body tokens (generation mode)

VARIABLES doc,     \* index of the document
          pos,     \* next token to read
          phase,   \* "start" | "partition" | "group" | "body" | "endgroup" | "rbrace" | "done"
          stack,   \* open blocks, innermost first: [k |-> kind, n |-> separators seen]
          names,   \* event names seen
          after,   \* "none" | "break" | "detach" : what the previous body line was
          leaked,  \* a placeholder name was written
          hist     \* tokens consumed (generation mode only)
vars == <<doc, pos, phase, stack, names, after, leaked, hist>>

Kinds == {"if", "switch", "fork", "split", "repeat"}
Toks == IF Gen THEN <<>> ELSE Docs[doc].toks
HasTok == Gen \/ pos <= Len(Toks)

Init == /\ doc \in (IF Gen THEN {0} ELSE 1..Len(Docs))
        /\ pos = 1 /\ phase = "start" /\ stack = <<>> /\ names = {}
        /\ after = "none" /\ leaked = FALSE /\ hist = <<>>

\* the next token: read from the document, or (generation mode) chosen
Frame(t) == [t |-> t, v |-> "", ph |-> FALSE]
Consume(tok) == /\ pos' = pos + 1
                /\ hist' = IF Gen THEN Append(hist, tok) ELSE hist
                /\ UNCHANGED doc

InBody == phase = "body"
EndOfBranchRequired == after # "none"
InRepeat == \E i \in DOMAIN stack : stack[i].k = "repeat"
SwitchWaitsCase == stack # <<>> /\ Head(stack).k = "switch" /\ Head(stack).n = 0

(* ---------------- frame ---------------- *)
StartUml(tok) == /\ tok.t = "STARTUML" /\ phase = "start"
                 /\ phase' = "partition" /\ Consume(tok)
                 /\ UNCHANGED <<stack, names, after, leaked>>
Partition(tok) == /\ tok.t = "PARTITION" /\ phase = "partition"
                  /\ phase' = "group" /\ Consume(tok)
                  /\ UNCHANGED <<stack, names, after, leaked>>
Group(tok) == /\ tok.t = "GROUP" /\ phase = "group"
              /\ phase' = "body" /\ Consume(tok)
              /\ UNCHANGED <<stack, names, after, leaked>>
EndGroup(tok) == /\ tok.t = "ENDGROUP" /\ InBody
                 /\ stack = <<>> /\ after # "break"
                 /\ phase' = "endgroup" /\ after' = "none" /\ Consume(tok)
                 /\ UNCHANGED <<stack, names, leaked>>
RBrace(tok) == /\ tok.t = "RBRACE" /\ phase = "endgroup"
               /\ phase' = "rbrace" /\ Consume(tok)
               /\ UNCHANGED <<stack, names, after, leaked>>
EndUml(tok) == /\ tok.t = "ENDUML" /\ phase = "rbrace"
               /\ phase' = "done" /\ Consume(tok)
               /\ UNCHANGED <<stack, names, after, leaked>>
Comment(tok) == /\ tok.t = "COMMENT" /\ ~Gen
                /\ Consume(tok)
                /\ UNCHANGED <<phase, stack, names, after, leaked>>

(* ---------------- body ---------------- *)
Event(tok) == /\ tok.t = "EV" /\ InBody
              /\ ~EndOfBranchRequired /\ ~SwitchWaitsCase
              /\ names' = names \cup {tok.v}
              /\ leaked' = (leaked \/ tok.ph)
              /\ Consume(tok)
              /\ UNCHANGED <<phase, stack, after>>
Open(tok) == /\ tok.t = "OPEN" /\ InBody /\ tok.v \in Kinds
             /\ ~EndOfBranchRequired /\ ~SwitchWaitsCase
             /\ stack' = <<[k |-> tok.v, n |-> 0]>> \o stack
             /\ Consume(tok)
             /\ UNCHANGED <<phase, names, after, leaked>>
Sep(tok) == /\ tok.t = "SEP" /\ InBody
            /\ stack # <<>> /\ Head(stack).k = tok.v /\ tok.v # "repeat"
            /\ stack' = <<[Head(stack) EXCEPT !.n = @ + 1]>> \o Tail(stack)
            /\ after' = "none"
            /\ Consume(tok)
            /\ UNCHANGED <<phase, names, leaked>>
Close(tok) == /\ tok.t = "CLOSE" /\ InBody
              /\ stack # <<>> /\ Head(stack).k = tok.v
              /\ ~SwitchWaitsCase
              /\ stack' = Tail(stack)
              /\ after' = "none"
              /\ Consume(tok)
              /\ UNCHANGED <<phase, names, leaked>>
Break(tok) == /\ tok.t = "BREAK" /\ InBody
              /\ ~EndOfBranchRequired /\ ~SwitchWaitsCase
              /\ InRepeat
              /\ Head(stack).k \in {"switch", "if"}      \* the branch a break ends is a branch of an exclusive choice
              /\ after' = "break"
              /\ Consume(tok)
              /\ UNCHANGED <<phase, stack, names, leaked>>
Detach(tok) == /\ tok.t = "DETACH" /\ InBody
               /\ ~EndOfBranchRequired /\ ~SwitchWaitsCase
               /\ after' = "detach"
               /\ Consume(tok)
               /\ UNCHANGED <<phase, stack, names, leaked>>

Step(tok) == \/ StartUml(tok) \/ Partition(tok) \/ Group(tok) \/ EndGroup(tok) \/ RBrace(tok) \/ EndUml(tok)
             \/ Comment(tok) \/ Event(tok) \/ Open(tok) \/ Sep(tok) \/ Close(tok) \/ Break(tok) \/ Detach(tok)

BodyLen == Len(SelectSeq(hist, LAMBDA x : x.t \notin {"STARTUML", "PARTITION", "GROUP", "ENDGROUP", "RBRACE", "ENDUML"}))
Next == IF Gen
          THEN \E tok \in Alphabet \cup {Frame("STARTUML"), Frame("PARTITION"), Frame("GROUP"), Frame("ENDGROUP"),
                                         Frame("RBRACE"), Frame("ENDUML")} :
                  /\ (tok \in Alphabet => BodyLen < MaxLen)
                  /\ Step(tok)
          ELSE pos <= Len(Toks) /\ Step(Toks[pos])

Spec == Init /\ [][Next]_vars

(* ---------------- properties of the recogniser itself (checked in both modes) ---------------- *)
TypeOK == /\ phase \in {"start", "partition", "group", "body", "endgroup", "rbrace", "done"}
          /\ after \in {"none", "break", "detach"}
          /\ \A i \in DOMAIN stack : stack[i].k \in Kinds /\ stack[i].n \in Nat
          /\ leaked \in BOOLEAN
\* blocks can only be open inside the body; break/detach obligations only there
StackOnlyInBody == (phase # "body") => (stack = <<>> /\ after = "none")
\* a pending break always has its loop
BreakHasLoop == (after = "break") => InRepeat
\* the stack discipline: a terminator never pops a frame of another kind
CloseMatches == [][(Len(stack') < Len(stack)) =>
                      /\ stack' = Tail(stack)
                      /\ (~Gen => (Toks[pos].t = "CLOSE" /\ Toks[pos].v = Head(stack).k))
                      /\ (Gen => (Len(hist') > 0 /\ hist'[Len(hist')].t = "CLOSE"
                                  /\ hist'[Len(hist')].v = Head(stack).k))]_vars
\* at most one successor per token: the machine is deterministic
Deterministic == [][pos' = pos + 1]_vars

Accepted == phase = "done" /\ (Gen \/ pos = Len(Toks) + 1)
NamesExact == Gen \/ names = Docs[doc].types

(* ---------------- reporting (always TRUE) ---------------- *)
Report == Accepted =>
            IF Gen THEN PrintT(<<"STR", hist>>)
            ELSE IF leaked THEN PrintT(<<"LEAK", doc, names>>)
            ELSE IF NamesExact THEN PrintT(<<"OK", doc>>) ELSE PrintT(<<"NAMES", doc, names>>)
ReportPrefix == Gen \/ PrintT(<<"PFX", doc, pos, phase, after, stack>>)
=============================================================================
