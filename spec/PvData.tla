---- MODULE PvData ----
(* Stub of the generated data module (the harness overwrites it per run). *)
EXTENDS Integers, Sequences
Obs == <<>>
DayRange == {}
====
