---- MODULE MCData ----
(* Stub of the generated data module (the harness overwrites it per run). *)
EXTENDS Naturals, Sequences
Jobs == << {[id |-> 0, ty |-> "S", pv |-> {}], [id |-> 1, ty |-> "A", pv |-> {0}], [id |-> 2, ty |-> "B", pv |-> {1}]},
           {[id |-> 0, ty |-> "S", pv |-> {}], [id |-> 1, ty |-> "A", pv |-> {0}], [id |-> 2, ty |-> "C", pv |-> {1}]} >>
MaxHist == 3
LoadMarksStale == TRUE
====
