---- MODULE SeqData ----
(* Stub of the generated data module (the harness overwrites it per run). *)
EXTENDS Naturals, Sequences
Cases == << [n |-> 3, par |-> <<0, 1, 1>>, ty |-> <<"R", "A", "B">>, s |-> <<0, 1, 2>>, e |-> <<6, 3, 4>>,
             async |-> TRUE, grp |-> {}, ren |-> {}, job |-> "j", name |-> "n", app |-> "a", obs |-> <<>>] >>
====
