---- MODULE GateData ----
(* Stub of the generated data module (the harness overwrites it per run). *)
EXTENDS Naturals, Sequences
Trees == << [op |-> "xor", e |-> "", c |-> << [op |-> "leaf", e |-> "A", c |-> <<>>], [op |-> "leaf", e |-> "B", c |-> <<>>] >>] >>
Pairs == <<>>
====
