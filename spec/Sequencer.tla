------------------------------ MODULE Sequencer ------------------------------
(***************************************************************************)
(* The documented sequencing rules (docs/user/sequencer_HOWTO.md) for one  *)
(* call tree, stated twice:                                                *)
(*   - as a closed form, Expected: the predecessor set of every span;      *)
(*   - as a machine that walks the tree in post-order with an explicit     *)
(*     stack (one action per step of the recursive procedure: descend into *)
(*     the next member of the current sibling group, advance to the next   *)
(*     group, link the span itself).                                       *)
(* TLC runs the machine on every case of the data module and checks that   *)
(* it ends in the closed form (B3), that the structural invariants of the  *)
(* statement hold for the result, and - when the case carries what the     *)
(* real sequencer produced - that the observed links and types are exactly *)
(* the expected ones (B2).                                                 *)
(*                                                                         *)
(* Rules: children are ordered by start time; prior information puts the   *)
(* children mapped to one group (per parent type) into one group; in       *)
(* asynchronous mode consecutive groups whose time windows form an         *)
(* overlapping chain (start <= latest end so far) are merged; the first    *)
(* group of a span's children inherits the span's incoming set, every      *)
(* later group follows the previous group, the span itself follows its     *)
(* last group (or its incoming set if it has no child); a span whose type  *)
(* is listed in the rename map and that has a child of a listed type is    *)
(* renamed.                                                                *)
(***************************************************************************)
EXTENDS Naturals, Sequences, FiniteSets, TLC, SeqData
\* SeqData (generated) defines Cases: sequence of
\*   [n, par: <<0, p2, ..>>, ty, s, e: sequences over 1..n; async: BOOLEAN;
\*    grp: set of <<parent type, child type, group id>>; ren: set of [from, to, kids];
\*    job, name, app: strings; obs: <<>> or the emitted PV job (see below)]

VARIABLES c,       \* index of the case
          stack,   \* frames [x, k, done]: span, index of its current child group, members of that group already sequenced
          incs,    \* incoming set per frame (parallel to stack)
          prev     \* span |-> predecessor set computed so far (partial function as a set of <<x, set>>)
vars == <<c, stack, incs, prev>>

C == Cases[c]
Spans == 1..C.n
Children(x) == {y \in Spans : C.par[y] = x}

\* effective type after renaming
Renamed(x) == \E r \in C.ren : r.from = C.ty[x] /\ \E y \in Children(x) : C.ty[y] \in r.kids
Ty(x) == IF Renamed(x) THEN (CHOOSE r \in C.ren : r.from = C.ty[x] /\ \E y \in Children(x) : C.ty[y] \in r.kids).to
         ELSE C.ty[x]

(* ---------------- sibling groups ---------------- *)
GroupId(x, y) == IF \E g \in C.grp : g[1] = Ty(x) /\ g[2] = Ty(y)
                   THEN <<"g", (CHOOSE g \in C.grp : g[1] = Ty(x) /\ g[2] = Ty(y))[3]>>
                   ELSE <<"s", y>>
BaseGroups(x) == {{y \in Children(x) : GroupId(x, y) = GroupId(x, z)} : z \in Children(x)}
MinStart(g) == CHOOSE t \in {C.s[y] : y \in g} : \A y \in g : t <= C.s[y]
MaxEnd(g) == CHOOSE t \in {C.e[y] : y \in g} : \A y \in g : t >= C.e[y]
\* groups ordered by their earliest start (sibling starts are distinct)
RECURSIVE SortGroups(_)
SortGroups(G) == IF G = {} THEN <<>>
                 ELSE LET g == CHOOSE g \in G : \A h \in G : MinStart(g) <= MinStart(h)
                      IN <<g>> \o SortGroups(G \ {g})
\* asynchronous mode: merge a group into the chain while it starts no later than the latest end so far
RECURSIVE Merge(_, _, _)
Merge(acc, rest, maxEnd) ==
    IF rest = <<>> THEN acc
    ELSE LET g == Head(rest)
             me == IF MaxEnd(g) > maxEnd THEN MaxEnd(g) ELSE maxEnd
         IN IF maxEnd < MinStart(g)
              THEN Merge(Append(acc, g), Tail(rest), me)
              ELSE Merge([acc EXCEPT ![Len(acc)] = @ \cup g], Tail(rest), me)
Groups(x) == LET sg == SortGroups(BaseGroups(x))
             IN IF ~C.async \/ sg = <<>> THEN sg ELSE Merge(<<Head(sg)>>, Tail(sg), MaxEnd(Head(sg)))

(* ---------------- closed form ---------------- *)
RECURSIVE Links(_, _)
Links(x, inc) == LET gs == Groups(x)
                     In(k) == IF k = 1 THEN inc ELSE gs[k - 1]
                 IN UNION {UNION {Links(y, In(k)) : y \in gs[k]} : k \in DOMAIN gs}
                    \cup {<<x, IF gs = <<>> THEN inc ELSE gs[Len(gs)]>>}
Expected == Links(1, {})
PrevOf(P, x) == (CHOOSE p \in P : p[1] = x)[2]

(* ---------------- the machine ---------------- *)
Init == /\ c \in 1..Len(Cases)
        /\ stack = <<[x |-> 1, k |-> 1, done |-> {}]>> /\ incs = <<{}>>
        /\ prev = {}
Top == stack[Len(stack)]
TopInc == incs[Len(incs)]
Descend == /\ stack # <<>>
           /\ LET f == Top
                  gs == Groups(f.x)
              IN /\ f.k <= Len(gs) /\ f.done # gs[f.k]
                 /\ \E y \in gs[f.k] \ f.done :
                       /\ stack' = Append([stack EXCEPT ![Len(stack)] = [f EXCEPT !.done = @ \cup {y}]],
                                          [x |-> y, k |-> 1, done |-> {}])
                       /\ incs' = Append(incs, IF f.k = 1 THEN TopInc ELSE gs[f.k - 1])
           /\ UNCHANGED <<c, prev>>
NextGroup == /\ stack # <<>>
             /\ LET f == Top
                    gs == Groups(f.x)
                IN /\ f.k <= Len(gs) /\ f.done = gs[f.k]
                   /\ stack' = [stack EXCEPT ![Len(stack)] = [f EXCEPT !.k = @ + 1, !.done = {}]]
             /\ UNCHANGED <<c, incs, prev>>
LinkSelf == /\ stack # <<>>
            /\ LET f == Top
                   gs == Groups(f.x)
               IN /\ f.k > Len(gs)
                  /\ prev' = prev \cup {<<f.x, IF gs = <<>> THEN TopInc ELSE gs[Len(gs)]>>}
                  /\ stack' = SubSeq(stack, 1, Len(stack) - 1)
                  /\ incs' = SubSeq(incs, 1, Len(incs) - 1)
            /\ UNCHANGED c
Next == Descend \/ NextGroup \/ LinkSelf
Spec == Init /\ [][Next]_vars

Done == stack = <<>>

(* ---------------- properties ---------------- *)
\* B3: the machine computes the closed form; every span is linked exactly once
MachineIsClosedForm == Done => prev = Expected
OncePerSpan == /\ \A p, q \in prev : p[1] = q[1] => p = q
               /\ Done => {p[1] : p \in prev} = Spans
\* structural clauses of the statement, on a link relation P (set of <<x, predecessor set>>)
RECURSIVE Reach(_, _, _)
Reach(P, x, n) == IF n = 0 THEN {} ELSE LET d == PrevOf(P, x) IN d \cup UNION {Reach(P, y, n - 1) : y \in d}
Acyclic(P) == \A x \in Spans : x \notin Reach(P, x, C.n)
SingleStart(P) == Cardinality({x \in Spans : PrevOf(P, x) = {}}) = 1
RECURSIVE Desc(_)
Desc(x) == Children(x) \cup UNION {Desc(y) : y \in Children(x)}
AfterDescendants(P) == \A x \in Spans : Desc(x) \subseteq Reach(P, x, C.n)
\* The statement's "single-start" follows from the documented rules only when no sibling group has several members
\* (synchronous mode without prior information): TLC shows that a first group of overlapping / grouped siblings
\* yields several events without predecessor under the documented rules themselves (DESIGN section 4, C08).
Sequential == ~C.async /\ C.grp = {}
Structural(P) == Acyclic(P) /\ AfterDescendants(P) /\ (Sequential => SingleStart(P))
ExpectedIsStructural == Done => Structural(Expected)

\* B2: what the real sequencer produced for this case: obs is the emitted PV job, one record per event
\* [id (span number or 0 for an unknown id), ty, prev (set of span numbers; 0 for an unknown id), job, name, app]
HasObs == C.obs # <<>>
ObsOnce == Len(C.obs) = C.n /\ {C.obs[i].id : i \in DOMAIN C.obs} = Spans
Obs(x) == C.obs[CHOOSE i \in DOMAIN C.obs : C.obs[i].id = x]
ObsLinks == {<<x, Obs(x).prev>> : x \in Spans}
ObsExact == ObsLinks = Expected
ObsTypes == \A x \in Spans : Obs(x).ty = Ty(x)
ObsFields == \A x \in Spans : Obs(x).job = C.job /\ Obs(x).name = C.name /\ Obs(x).app = C.app
ObsStructural == (\A x \in Spans : Obs(x).prev \subseteq Spans) /\ Structural(ObsLinks)
Verdict == IF ~ObsOnce THEN "once"
           ELSE IF ~ObsFields THEN "fields"
           ELSE IF ~ObsTypes THEN "types"
           ELSE IF ~ObsExact THEN (IF ObsStructural THEN "links" ELSE "links-structure")
           ELSE "ok"
Report == Done => IF HasObs THEN PrintT(<<"V", c, Verdict>>) ELSE PrintT(<<"E", c, Expected>>)
=============================================================================
