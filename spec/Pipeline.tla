------------------------------ MODULE Pipeline ------------------------------
(***************************************************************************)
(* The seam between the two halves of the tool: otel2pv streams PV jobs,   *)
(* may save each job as a JSON file with its keys renamed by a mapping     *)
(* configuration, and pv2puml loads such files with the inverse renaming.  *)
(*                                                                         *)
(*   StreamJob   streamed' = the PV jobs of the in-memory stream           *)
(*   SaveFile    files'    = one file per job, every event with its keys   *)
(*                           renamed by the mapping, all fields and links  *)
(*   LoadFile    loaded'   = the events of the files with the keys renamed *)
(*                           back                                          *)
(* Invariant at the end: loaded = streamed.  A trace of the real code      *)
(* (PipeData.Runs) logs the three stages of one data set; TLC replays it   *)
(* through the actions and checks each logged stage against the state.     *)
(* An event is a record [jobId, eventId, timestamp, applicationName,       *)
(* jobName, eventType, previousEventIds (a set)]; a raw file event is a    *)
(* function from key strings to values.                                    *)
(***************************************************************************)
EXTENDS Naturals, Sequences, FiniteSets, TLC, PipeData
\* PipeData (generated) defines Runs: sequence of
\*   [map |-> function PV field -> key in the files, streamed |-> set of jobs, files |-> set of files,
\*    loaded |-> set of jobs]       (job = set of events, file = set of raw events)

VARIABLES r, pc, streamed, files, loaded, bad
vars == <<r, pc, streamed, files, loaded, bad>>

Fields == {"jobId", "eventId", "timestamp", "applicationName", "jobName", "eventType", "previousEventIds"}
Rename(m, ev) == [k \in {m[f] : f \in Fields} |-> ev[CHOOSE f \in Fields : m[f] = k]]
Unrename(m, raw) == [f \in Fields |-> raw[m[f]]]
Injective(m) == \A f, g \in Fields : m[f] = m[g] => f = g

Init == /\ r \in 1..Len(Runs) /\ pc = "stream"
        /\ streamed = {} /\ files = {} /\ loaded = {} /\ bad = {}
StreamJob == /\ pc = "stream"
             /\ streamed' = Runs[r].streamed
             /\ pc' = "save" /\ UNCHANGED <<r, files, loaded, bad>>
SaveFile == /\ pc = "save"
            /\ files' = {{Rename(Runs[r].map, ev) : ev \in job} : job \in streamed}
            /\ bad' = IF files' = Runs[r].files THEN bad ELSE bad \cup {"saved-files"}
            /\ pc' = "load" /\ UNCHANGED <<r, streamed, loaded>>
LoadFile == /\ pc = "load"
            /\ loaded' = {{Unrename(Runs[r].map, raw) : raw \in f} : f \in Runs[r].files}
            /\ bad' = IF loaded' = Runs[r].loaded THEN bad ELSE bad \cup {"loaded-events"}
            /\ pc' = "done" /\ UNCHANGED <<r, streamed, files>>
Next == StreamJob \/ SaveFile \/ LoadFile
Spec == Init /\ [][Next]_vars

\* design-level: with an injective mapping, saving and loading is the identity on the stream
RoundTrip == (pc = "done" /\ Injective(Runs[r].map) /\ "saved-files" \notin bad) => loaded = streamed
\* what the real code loaded is what it streamed
ObservedRoundTrip == (pc = "done") => (Runs[r].loaded = Runs[r].streamed \/ PrintT(<<"BAD", r, "loaded-differs-from-streamed">>))
ReportBad == \A b \in bad : PrintT(<<"BAD", r, b>>)
Report == (pc = "done") => (ReportBad /\ PrintT(<<"END", r>>))
=============================================================================
