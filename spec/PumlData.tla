---- MODULE PumlData ----
(* Stub of the generated data module (the harness overwrites it per run). *)
EXTENDS Naturals, Sequences, TLC
Gen == TRUE
Docs == <<>>
MaxLen == 3
Alphabet == { [t |-> "EV", v |-> "A", ph |-> FALSE], [t |-> "OPEN", v |-> "fork", ph |-> FALSE],
              [t |-> "SEP", v |-> "fork", ph |-> FALSE], [t |-> "CLOSE", v |-> "fork", ph |-> FALSE] }
====
